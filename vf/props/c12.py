"""C12 — aggregation state can be checkpointed and resumed without changing results (engine F).

History per (aggregation, table, split): one uninterrupted run on a fresh pipeline with the state
exposed after every batch (with_state=True where the API offers it; for sum / count / groupby
sum / count the emitted value is the state; Series mean is seeded with (sum, count) taken from
parallel sum and count streams, as the existing test does).  The state *objects* captured during
that run are kept as they are (no copy).  After the run has gone on to the end, for every cut k:
  * the captured object must still describe the state after batch k (clause resumed-state,
    detail mutated-after-capture);
  * two successive fresh pipelines built with start=<that object> are fed the remaining batches;
    each must reproduce the uninterrupted results (resumed-result) and states (resumed-state).
Differential throughout: no hand-written expectation.
"""
from .. import frames as F

MOD = __name__
SPECS = {}
XY = ["x", "y"]


def add(key, make, site=None):
    SPECS[key] = F.RSpec(key, site or key, make)


def ws(key, build, site=None):
    add(key, F.with_state(build), site)


def sr(key, build, site=None):
    add(key, F.state_is_result(build), site)


def _kw(st, fresh, **extra):
    kw = dict(extra)
    if not fresh:
        kw["start"] = st
    return kw


# --- reductions (emitted value is the state) ---------------------------------------------
sr("Series.sum", lambda d, st, fresh: d.x.sum(**_kw(st, fresh)))
sr("Series.count", lambda d, st, fresh: d.x.count(**_kw(st, fresh)))
sr("DataFrame.sum", lambda d, st, fresh: d[XY].sum(**_kw(st, fresh)))
sr("DataFrame.count", lambda d, st, fresh: d[XY].count(**_kw(st, fresh)))


def _mean_parallel(sel):
    def make(sdf, st, fresh):
        d = sel(sdf)
        if fresh:
            m, s, c = d.mean(), d.sum(), d.count()
        else:
            m, s, c = d.mean(start=st), d.sum(start=st[0]), d.count(start=st[1])
        Lm, Ls, Lc = m.stream.sink_to_list(), s.stream.sink_to_list(), c.stream.sink_to_list()
        return lambda: [((a, b), r) for a, b, r in zip(Ls, Lc, Lm)]
    return make


add("Series.mean", _mean_parallel(lambda d: d.x))
add("DataFrame.mean", _mean_parallel(lambda d: d[XY]))
REDUCE = list(SPECS)

# --- rolling / expanding / ewm ---------------------------------------------------------
for w in (2, 3):
    for op in ("sum", "mean"):
        ws("rolling(%d).%s" % (w, op), lambda d, st, fresh, w=w, op=op: getattr(d.rolling(w, with_state=True, **_kw(st, fresh)).x, op)(),
           "rolling(n).%s" % op)
ws("rolling(2).sum[frame]", lambda d, st, fresh: d[XY].rolling(2, with_state=True, **_kw(st, fresh)).sum(), "rolling(n).sum")
for op in ("sum", "mean", "count", "var"):
    ws("expanding.%s" % op, lambda d, st, fresh, op=op: getattr(d.expanding(with_state=True, **_kw(st, fresh)).x, op)())
ws("ewm(com=1).mean", lambda d, st, fresh: d.ewm(com=1, with_state=True, **_kw(st, fresh)).x.mean(), "ewm.mean")
ws("ewm(alpha=.5).mean[frame]", lambda d, st, fresh: d[XY].ewm(alpha=0.5, with_state=True, **_kw(st, fresh)).mean(), "ewm.mean")
ws("expanding.var[frame]", lambda d, st, fresh: d[XY].expanding(with_state=True, **_kw(st, fresh)).var(), "expanding.var")
ws("expanding.mean[frame]", lambda d, st, fresh: d[XY].expanding(with_state=True, **_kw(st, fresh)).mean(), "expanding.mean")
SCAN = [k for k in SPECS if k not in REDUCE]

# --- windows ------------------------------------------------------------------------------
WVAL, WGRP = [], []
for n in (1, 2, 3):
    lab = "window(n=%d)" % n
    for op in ("sum", "count", "mean", "var"):
        ws("%s.%s" % (lab, op), lambda d, st, fresh, n=n, op=op: getattr(d.window(n=n, with_state=True, **_kw(st, fresh)).x, op)(),
           "window(n).%s" % op)
        WVAL.append("%s.%s" % (lab, op))
    ws("%s.size" % lab, lambda d, st, fresh, n=n: d.window(n=n, with_state=True, **_kw(st, fresh)).x.size, "window(n).size")
    ws("%s.value_counts" % lab, lambda d, st, fresh, n=n: d.window(n=n, with_state=True, **_kw(st, fresh)).x.value_counts(), "window(n).value_counts")
    ws("%s.full" % lab, lambda d, st, fresh, n=n: d.window(n=n, with_state=True, **_kw(st, fresh)).full(), "window(n).full")
    ws("%s.sum[frame]" % lab, lambda d, st, fresh, n=n: d.window(n=n, with_state=True, **_kw(st, fresh))[XY].sum(), "window(n).sum")
    ws("%s.var[frame]" % lab, lambda d, st, fresh, n=n: d.window(n=n, with_state=True, **_kw(st, fresh))[XY].var(), "window(n).var")
    ws("%s.mean[frame]" % lab, lambda d, st, fresh, n=n: d.window(n=n, with_state=True, **_kw(st, fresh))[XY].mean(), "window(n).mean")
    # an expression built on the window (Window.map_partitions) must carry start= / with_state too
    ws("%s.sum[x*y+1]" % lab, lambda d, st, fresh, n=n: (lambda w: (w.x * w.y + 1).sum())(d.window(n=n, with_state=True, **_kw(st, fresh))), "window(n).sum")
    WVAL += ["%s.%s" % (lab, x) for x in ("size", "value_counts", "full", "sum[frame]", "sum[x*y+1]", "var[frame]", "mean[frame]")]
    for op in ("sum", "count", "size", "mean", "var"):
        ws("%s.groupby(col).%s" % (lab, op),
           lambda d, st, fresh, n=n, op=op: getattr(d.window(n=n, with_state=True, **_kw(st, fresh)).groupby("k").x, op)(),
           "window(n).groupby(col).%s" % op)
        WGRP.append("%s.groupby(col).%s" % (lab, op))
    for op in ("sum", "mean", "size"):
        ws("%s.groupby(series).%s" % (lab, op),
           lambda d, st, fresh, n=n, op=op: (lambda w: getattr(w.groupby(w.k).x, op)())(d.window(n=n, with_state=True, **_kw(st, fresh))),
           "window(n).groupby(series).%s" % op)
        WGRP.append("%s.groupby(series).%s" % (lab, op))

# --- groupby ---------------------------------------------------------------------------------
GRP = []
sr("groupby(col).sum", lambda d, st, fresh: d.groupby("k").x.sum(**_kw(st, fresh)))
sr("groupby(col).count", lambda d, st, fresh: d.groupby("k").x.count(**_kw(st, fresh)))
ws("groupby(col).mean", lambda d, st, fresh: d.groupby("k").x.mean(with_state=True, **_kw(st, fresh)))
sr("groupby(series).sum", lambda d, st, fresh: d.groupby(d.k).x.sum(**_kw(st, fresh)))
ws("groupby(series).mean", lambda d, st, fresh: d.groupby(d.k).x.mean(with_state=True, **_kw(st, fresh)))
sr("groupby(col).sum[frame]", lambda d, st, fresh: d.groupby("k").sum(**_kw(st, fresh)), "groupby(col).sum")
GRP = [k for k in SPECS if k.startswith("groupby(")]

# --- time windows / time-based rolling ---------------------------------------------------------
TVAL, TGRP = {"s": [], "ns": []}, {"s": [], "ns": []}
for grid, T in (("s", "2s"), ("s", "1s"), ("ns", "2ns"), ("ns", "1ns")):
    lab = "window(value=%s)" % T
    for op in ("sum", "mean"):
        ws("%s.%s" % (lab, op), lambda d, st, fresh, T=T, op=op: getattr(d.window(value=T, with_state=True, **_kw(st, fresh)).x, op)(),
           "window(value).%s" % op)
        TVAL[grid].append("%s.%s" % (lab, op))
    ws("%s.full" % lab, lambda d, st, fresh, T=T: d.window(value=T, with_state=True, **_kw(st, fresh)).full(), "window(value).full")
    ws("rolling(%s).sum" % T, lambda d, st, fresh, T=T: d.rolling(T, with_state=True, **_kw(st, fresh)).x.sum(), "rolling(time).sum")
    TVAL[grid] += ["%s.full" % lab, "rolling(%s).sum" % T]
    ws("%s.groupby(col).sum" % lab, lambda d, st, fresh, T=T: d.window(value=T, with_state=True, **_kw(st, fresh)).groupby("k").x.sum(),
       "window(value).groupby(col).sum")
    ws("%s.groupby(series).mean" % lab,
       lambda d, st, fresh, T=T: (lambda w: w.groupby(w.k).x.mean())(d.window(value=T, with_state=True, **_kw(st, fresh))),
       "window(value).groupby(series).mean")
    TGRP[grid] += ["%s.groupby(col).sum" % lab, "%s.groupby(series).mean" % lab]

# --- resumed with start=state alone (the new pipeline does not expose its own state) ----------------------------


def _k2(st, fresh, **extra):
    kw = dict(extra)
    if fresh:
        kw["with_state"] = True
    else:
        kw["start"] = st
    return kw


def wp(key, build, site=None):
    add(key, F.with_state_then_plain(build), site)


PLAIN = []
for n in (1, 2):
    lab = "window(n=%d)" % n
    for op in ("sum", "mean", "var"):
        wp("%s.%s[start only]" % (lab, op), lambda d, st, fresh, n=n, op=op: getattr(d.window(n=n, **_k2(st, fresh)).x, op)(), "window(n).%s" % op)
    wp("%s.full[start only]" % lab, lambda d, st, fresh, n=n: d.window(n=n, **_k2(st, fresh)).full(), "window(n).full")
    wp("%s.sum[frame][start only]" % lab, lambda d, st, fresh, n=n: d.window(n=n, **_k2(st, fresh))[XY].sum(), "window(n).sum")
    wp("%s.sum[x*y+1][start only]" % lab, lambda d, st, fresh, n=n: (lambda w: (w.x * w.y + 1).sum())(d.window(n=n, **_k2(st, fresh))), "window(n).sum")
    wp("%s.groupby(col).sum[start only]" % lab, lambda d, st, fresh, n=n: d.window(n=n, **_k2(st, fresh)).groupby("k").x.sum(),
       "window(n).groupby(col).sum")
    wp("%s.groupby(col).mean[start only]" % lab, lambda d, st, fresh, n=n: d.window(n=n, **_k2(st, fresh)).groupby("k").x.mean(),
       "window(n).groupby(col).mean")
wp("rolling(2).sum[start only]", lambda d, st, fresh: d.rolling(2, **_k2(st, fresh)).x.sum(), "rolling(n).sum")
wp("rolling(2).mean[start only]", lambda d, st, fresh: d.rolling(2, **_k2(st, fresh)).x.mean(), "rolling(n).mean")
wp("expanding.sum[start only]", lambda d, st, fresh: d.expanding(**_k2(st, fresh)).x.sum(), "expanding.sum")
wp("expanding.var[start only]", lambda d, st, fresh: d.expanding(**_k2(st, fresh)).x.var(), "expanding.var")
wp("ewm(com=1).mean[start only]", lambda d, st, fresh: d.ewm(com=1, **_k2(st, fresh)).x.mean(), "ewm.mean")
wp("ewm(com=3).mean[start only]", lambda d, st, fresh: d.ewm(com=3, **_k2(st, fresh)).x.mean(), "ewm.mean")
wp("groupby(col).mean[start only]", lambda d, st, fresh: d.groupby("k").x.mean(**_k2(st, fresh)), "groupby(col).mean")
wp("groupby(series).mean[start only]", lambda d, st, fresh: d.groupby(d.k).x.mean(**_k2(st, fresh)), "groupby(series).mean")
wp("groupby(col).mean[frame][start only]", lambda d, st, fresh: d.groupby("k")[XY].mean(**_k2(st, fresh)), "groupby(col).mean")
PLAIN = [k for k in SPECS if k.endswith("[start only]")]
TPLAIN = {"s": [], "ns": []}
for grid, T in (("s", "2s"), ("ns", "2ns")):
    lab = "window(value=%s)" % T
    wp("%s.sum[start only]" % lab, lambda d, st, fresh, T=T: d.window(value=T, **_k2(st, fresh)).x.sum(), "window(value).sum")
    wp("rolling(%s).sum[start only]" % T, lambda d, st, fresh, T=T: d.rolling(T, **_k2(st, fresh)).x.sum(), "rolling(time).sum")
    wp("%s.groupby(col).sum[start only]" % lab, lambda d, st, fresh, T=T: d.window(value=T, **_k2(st, fresh)).groupby("k").x.sum(),
       "window(value).groupby(col).sum")
    TPLAIN[grid] = ["%s.sum[start only]" % lab, "rolling(%s).sum[start only]" % T, "%s.groupby(col).sum[start only]" % lab]

LONG = ["window(n=3).sum", "window(n=3).full", "window(n=2).groupby(col).sum", "rolling(3).sum"]


def plan(ctx):
    n2 = lambda keys: [k for k in keys if "(n=2)" in k]
    n13 = lambda keys: [k for k in keys if "(n=2)" not in k]
    core = lambda keys: [k for k in keys if k.endswith((").sum", "groupby(col).sum", "groupby(series).size"))]
    if ctx.thorough:
        grp = GRP + n2(WGRP) + core(n13(WGRP))
        su = [F.Suite(REDUCE + SCAN + WVAL, "v", {1: 2, 2: 2, 3: 2, 4: 1}),
              F.Suite(grp, "kv", {1: 1, 2: 1, 3: 0}),
              F.Suite(grp, "kv3", {3: 1, 4: 0}),
              F.Suite([k for k in n13(WGRP) if k not in grp], "kv3", {1: 1, 2: 1, 3: 0}),
              F.Suite(LONG, "one", {5: 0, 6: 0})]
        for g in ("s", "ns"):
            su.append(F.Suite(TVAL[g], "v", {1: 2, 2: 2, 3: 1}, grid=g))
            su.append(F.Suite(TGRP[g], "kv3", {1: 2, 2: 2, 3: 0}, grid=g))
            su.append(F.Suite(TPLAIN[g], "kv3", {2: 2, 3: 1}, grid=g))
        su.append(F.Suite(PLAIN, "kv3", {2: 2, 3: 2, 4: 1}))
        su.append(F.Suite(PLAIN, "inc", {3: 1, 4: 0}))
        return su
    q3 = ["Series.mean", "DataFrame.sum", "rolling(2).sum", "expanding.var", "ewm(com=1).mean",
          "window(n=2).sum", "window(n=2).full", "window(n=2).value_counts"]
    su = [F.Suite(REDUCE + SCAN + WVAL, "v", {1: 1, 2: 1, 3: 0}),
          F.Suite(q3, "v", {3: 1}),
          F.Suite(GRP + n2(WGRP) + core(n13(WGRP)), "kv", {1: 0, 2: 0}),
          F.Suite(GRP + n2(WGRP) + core(n13(WGRP)), "kv3", {1: 1, 2: 1, 3: 0}),
          F.Suite(LONG[:2], "one", {5: 0})]
    for g in ("s", "ns"):
        su.append(F.Suite(TVAL[g], "v", {1: 1, 2: 1}, grid=g))
        su.append(F.Suite(core(TVAL[g]), "v", {3: 0}, grid=g))
        su.append(F.Suite(TGRP[g], "kv3", {1: 1, 2: 1}, grid=g))
        su.append(F.Suite(TPLAIN[g], "kv3", {2: 1, 3: 0}, grid=g))
    su.append(F.Suite(PLAIN, "kv3", {2: 1, 3: 1}))
    su.append(F.Suite(PLAIN, "inc", {3: 0}))
    return su


RULE = ("every table of R rows over (k, x), k in {a,b}, x in {1,2,NaN} (families as in C06/C07), every composition into consecutive "
        "batches with <= E empty batches, for time windows every non-decreasing DatetimeIndex with increments {0,1,2} (s and ns grid); "
        "per (aggregation, table, split): one uninterrupted run capturing the state object after every batch, then for EVERY cut two "
        "successive fresh pipelines with start=<captured object> fed the remaining batches. evaluations = pipeline runs (uninterrupted + "
        "resumed). distinct case = (family, table, time pattern, split); non-trivial = it contains an empty batch, a batch of >= 2 rows, "
        "a NaN, or a repeated key. states = distinct (aggregation, prefix rows, canonical accumulator state).")
ASSUME = ["alphabets and index grids as in C06/C07; cut points: after every batch but the last",
          "state exposed by with_state=True (rolling, window, windowed groupby, expanding, ewm, groupby mean); emitted value is the state for "
          "sum/count/groupby sum/count; Series/DataFrame mean seeded with (sum, count) from parallel streams",
          "states / results compared by canonical form (index labels, values rounded to 1e-9, NaN == NaN; list/deque/tuple interchangeable)",
          "a batch on which the uninterrupted run raises (e.g. the C07 time-window edge defect, var of an empty first batch) must raise the "
          "same exception type when resumed; no cut is taken right after it (no state was captured)",
          "example for the uninterrupted pipeline = first row of the table, for resumed pipelines = last row (streamz mixes the example into "
          "start= when it computes the example result; an example older than the rows held in a time-based rolling state raises at construction)"]


def check(ctx):
    rep = F.check(ctx, MOD, plan(ctx), RULE, ASSUME, worker=F.run_resume_item, replayer=F.replay_resume_case,
                  notes=_NOTES)
    # in this check the counter holds batches on which the *uninterrupted* run raised (no state to cut at)
    rep.coverage["uninterrupted_batches_raising"] = rep.coverage.pop("empty_prefix_exceptions")
    return rep


_NOTES = ["GroupBy.size/var/std, Frame.size, value_counts (unwindowed) and cum* take neither start= nor with_state: not resumable, left out",
          "Window.std with with_state=True is not usable (var ** 0.5 on a stream of (state, result) tuples): left out"]


def replay(ctx, rep):
    return F.replay(ctx, rep)
