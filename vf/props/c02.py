"""C02 — asynchronous timing never changes what lossless pipelines deliver.  Engine S.

src -> A [-> B] -> sink(kind) with A, B lossless asynchronous nodes, and zip / union of two
one-node branches with one producer each; consumers: Tornado/asyncio future, native coroutine,
gen.coroutine.  Oracle: what the sink has received, flattened, is at every step a prefix of the
producer's sequence (exactly once, in order) and equals it after the closing phase; no emit
raises; no background error.
"""
from ..sched import Violation
from .. import spar
from ._pipes import PipeScenario, JoinScenario, flat, needs_clock, parse

MOD = __name__


def _site(nodes):
    return "+".join(parse(s)[0] for s in nodes)


def _is_subseq_prefix(mine, want):
    """mine is an order-preserving selection of want (batches of one key may be delivered while
    earlier elements of the same key are still waiting for their timeout only if ... never: a key's
    elements leave in arrival order)"""
    return mine == want[:len(mine)]


class Chain(PipeScenario):
    close_intervals = 10.0

    def __init__(self, **p):
        super().__init__(**p)
        self.horizon = 2.0 if needs_clock(p["nodes"]) else 0.0

    def site(self):
        return _site(self.params["nodes"])

    def make_producers(self):
        p = self.params
        n = p["n"]
        self.add_producer("p", self.src, list(range(0, n)), mode=p["mode"])
        if p.get("nprod", 1) == 2:
            self.add_producer("q", self.src, [101, 102][: max(1, n - 1)], mode="burst")

    def check_step(self):
        return self._check(False)

    def check_final(self):
        return self._check(True)

    def _check(self, final):
        site = self.site()
        er = self.emit_raised()
        if er:
            return Violation("emit-raised", site, er[0][4], er)
        got = flat(self.delivered())
        arr = self.emitted()
        info = dict(emitted=arr, delivered=self.delivered())
        if "map_async_none" in site:
            # the i-th result of a single producer belongs to its i-th element; None stands for an even one
            got = [arr[i] if (g is None and i < len(arr) and arr[i] % 2 == 0) else g for i, g in enumerate(got)]
        if len(set(got)) != len(got):
            return Violation("duplicate", site, "", info)
        if any(x not in arr for x in got):
            return Violation("invented", site, "", info)
        keyed = any(s.endswith(":parity") for s in self.params["nodes"])
        for pr in self.producers:
            for cls in ((0, 1) if keyed else (None,)):
                # a keyed partition keeps the producer's order within each key only
                mine = [x for x in got if x in pr.items and (cls is None or x % 2 == cls)]
                want = [x for x in self.emitted(pr.name) if cls is None or x % 2 == cls]
                if (mine != want[:len(mine)]) if not keyed else (not _is_subseq_prefix(mine, want)):
                    return Violation("order", site, "", info)
        if final:
            if sorted(got) != sorted(arr):
                return Violation("loss", site, "", info)
            if self.params["kind"] != "sync" and sorted(map(repr, self.finished())) != sorted(map(repr, self.delivered())):
                return Violation("consumer-not-finished", site, "", dict(info, finished=self.finished()))
            pend = [pr.name for pr in self.producers if pr.inflight()]
            if pend:
                return Violation("emit-pending", site, "", dict(info, pending=pend))
        return None


class SrcChain(Chain):
    """a real source (from_iterable) drives the pipeline; the mapped coroutine fails for even items:
    with the default stop_on_exception=False the other items still arrive, exactly once and in order"""
    ITEMS = (1, 2, 3, 4, 5)

    def build(self):
        from streamz import Stream
        p = self.params
        self.items = list(self.ITEMS[:p["n"]])
        self.src = Stream.from_iterable(iter(self.items), asynchronous=True, loop=self.ioloop)
        node = self.src
        self.nodes = []
        for spec in p["nodes"]:
            node = self.build_node(node, spec)
            self.nodes.append(node)
        self.last = node
        self.attach_sink(node)
        self.src.start()

    def expected_background(self, err):
        return "Injected" in (err[1] + err[2]) or super().expected_background(err)

    def _check(self, final):
        site = "from_iterable+" + self.site()
        got = flat(self.delivered())
        failing = any("failing" in s for s in self.params["nodes"])
        want = [x for x in self.items if not (failing and x % 2 == 0)]
        info = dict(items=self.items, delivered=self.delivered())
        if got != want[:len(got)]:
            return Violation("order" if sorted(set(got)) == sorted(got) and all(x in want for x in got) else "duplicate-or-invented", site, "", info)
        if final and got != want:
            return Violation("loss", site, "", info)
        return None


class Join(JoinScenario):
    close_intervals = 10.0

    def __init__(self, **p):
        super().__init__(**p)
        self.horizon = 2.0 if needs_clock([s for s in (p.get("left"), p.get("right")) if s] + list(p.get("post", ()))) else 0.0

    def site(self):
        p = self.params
        return _site([s for s in (p.get("left"), p["join"], p.get("right")) if s])

    def check_step(self):
        return self._check(False)

    def check_final(self):
        return self._check(True)

    def _check(self, final):
        site = self.site()
        er = self.emit_raised()
        if er:
            return Violation("emit-raised", site, er[0][4], er)
        dl = self.delivered()
        ea, eb = self.emitted("a"), self.emitted("b")
        info = dict(a=ea, b=eb, delivered=dl)
        jname = parse(self.params["join"])[0]
        if jname == "zip":
            want = list(zip(ea, eb))
            if dl != want[:len(dl)]:
                return Violation("order", site, "", info)
            if final and dl != want:
                return Violation("loss", site, "", info)
        else:
            got = flat(dl)
            if len(set(got)) != len(got):
                return Violation("duplicate", site, "", info)
            for e in (ea, eb):
                mine = [x for x in got if x in e]
                if mine != e[:len(mine)]:
                    return Violation("order", site, "", info)
            if final and sorted(got) != sorted(ea + eb):
                return Violation("loss", site, "", info)
        if final:
            if sorted(map(repr, self.finished())) != sorted(map(repr, dl)):
                return Violation("consumer-not-finished", site, "", dict(info, finished=self.finished()))
            pend = [pr.name for pr in self.producers if pr.inflight()]
            if pend and jname != "zip":
                return Violation("emit-pending", site, "", dict(info, pending=pend))
        return None


class Twin(PipeScenario):
    """two independent pipelines with the same node type in one process: neither may influence
    the other (state shared between instances shows up only here)"""
    close_intervals = 10.0

    def __init__(self, **p):
        super().__init__(**p)
        self.horizon = 2.0 if needs_clock(p["nodes"]) else 0.0

    def site(self):
        return _site(self.params["nodes"])

    def build(self):
        from streamz import Stream
        p = self.params
        self.srcs = []
        for name, base in (("S", 0), ("T", 100)):
            src = Stream(asynchronous=True, loop=self.ioloop)
            node = src
            for spec in p["nodes"]:
                node = self.build_node(node, spec)
            node.sink(self.make_sink_fn(p["kind"], name))
            self.srcs.append(src)
            self.add_producer("p" if name == "S" else "q", src, [base + i for i in range(1, p["n"] + 1)], mode=p["mode"])
        self.src = self.srcs[0]

    def check_step(self):
        return self._check(False)

    def check_final(self):
        return self._check(True)

    def _check(self, final):
        site = self.site()
        er = self.emit_raised()
        if er:
            return Violation("emit-raised", site, er[0][4], er)
        for sink, prod in (("S", "p"), ("T", "q")):
            got = flat(self.delivered(sink))
            want = self.emitted(prod)
            info = dict(pipeline=sink, emitted=want, delivered=self.delivered(sink))
            if len(set(got)) != len(got):
                return Violation("duplicate", site, "twin", info)
            keyed = any(s.endswith(":parity") for s in self.params["nodes"])
            if keyed:
                bad = any([x for x in got if x % 2 == c] != [x for x in want if x % 2 == c][:len([x for x in got if x % 2 == c])] for c in (0, 1))
                if bad or any(x not in want for x in got):
                    return Violation("order" if all(x in want for x in got) else "invented", site, "twin", info)
            elif got != want[:len(got)]:
                return Violation("order" if all(x in want for x in got) else "invented", site, "twin", info)
            if final and (sorted(got) != sorted(want) if keyed else got != want):
                return Violation("loss", site, "twin", info)
        if final:
            pend = [pr.name for pr in self.producers if pr.inflight()]
            if pend:
                return Violation("emit-pending", site, "twin", dict(pending=pend))
        return None


def factory(key):
    if key[0] == "twin":
        _, nodes, kind, mode, n = key
        return lambda: Twin(nodes=tuple(nodes.split(",")), kind=kind, mode=mode, n=n)
    if key[0] == "srcchain":
        _, nodes, kind, n = key
        return lambda: SrcChain(nodes=tuple(nodes.split(",")), kind=kind, mode="await", n=n, nprod=1)
    if key[0] == "chain":
        _, nodes, kind, mode, n, nprod = key
        return lambda: Chain(nodes=tuple(nodes.split(",")), kind=kind, mode=mode, n=n, nprod=nprod)
    _, join, left, right, kind, mode, n = key
    return lambda: Join(join=join, left=left, right=right, kind=kind, mode=mode, n=n)


SINGLE = ["buffer:1", "buffer:2", "delay:1", "rate_limit:1", "map_async:1", "map_async:2",
          "timed_window:1", "partition:2:1", "partition:2:1:parity"]
KINDS = ["future", "native", "gen"]


def plan(ctx):
    jobs = []
    if not ctx.thorough:
        for a in SINGLE:
            heavy = a.startswith(("timed_window", "partition", "delay", "rate_limit"))
            for kind in KINDS:
                jobs.append((("chain", a, kind, "await", 3, 1), 0 if heavy else 1))
            jobs.append((("chain", a, "future", "burst", 3, 1), 0 if heavy else 1))
        for ab in ("buffer:1,map_async:2", "map_async:2,buffer:1", "buffer:2,rate_limit:1", "timed_window:1,buffer:1",
                   "partition:2:1,map_async:1", "delay:1,buffer:1", "map_async:1,map_async:2"):
            jobs.append((("chain", ab, "native", "await", 3, 1), 0))
        jobs.append((("chain", "map_async:1", "sync", "burst", 4, 1), 1))
        jobs.append((("chain", "buffer:1", "future", "await", 3, 2), 1))
        jobs.append((("chain", "map_async:2", "native", "await", 2, 2), 0))
        for a in SINGLE + ["latest_lossless"]:
            if a == "latest_lossless":
                continue
            jobs.append((("twin", a, "sync", "burst", 2), 0))
        for kind in KINDS:
            jobs.append((("join", "zip:1", "", "", kind, "await", 2), 1))
            jobs.append((("join", "union", "buffer:1", "", kind, "await", 2), 1))
        jobs.append((("join", "zip:1", "buffer:1", "map_async:1", "native", "await", 2), 0))
        jobs.append((("join", "union", "map_async:1", "buffer:2", "future", "burst", 2), 0))
        jobs.append((("join", "zip:1", "", "", "future", "burst", 3), 1))
    else:
        for a in SINGLE:
            heavy = a.startswith(("timed_window", "partition", "delay", "rate_limit"))
            masync = a.startswith("map_async")
            for kind in KINDS:
                jobs.append((("chain", a, kind, "await", 4 if not heavy else 3, 1), 1))
                jobs.append((("chain", a, kind, "await", 3, 1), 1 if (heavy or masync) else 2))
                jobs.append((("chain", a, kind, "burst", 3, 1), 1))
            jobs.append((("chain", a, "sync", "burst", 4, 1), 1 if not heavy else 0))
            jobs.append((("chain", a, "native", "await", 2, 2), 1 if not heavy else 0))
        for a in SINGLE:
            for b in SINGLE:
                if b.endswith(":parity") and a.startswith(("timed_window", "partition")):
                    continue        # the harness key function (x % 2) is not defined on the batches of the first node
                jobs.append((("chain", a + "," + b, "native", "await", 3, 1), 0))
        for a in SINGLE:
            heavy = a.startswith(("timed_window", "partition", "delay", "rate_limit"))
            masync = a.startswith("map_async")
            jobs.append((("twin", a, "sync", "burst", 3), 1 if not (heavy or masync) else 0))
            if masync:
                jobs.append((("twin", a, "sync", "burst", 2), 1))
            if not heavy:
                jobs.append((("twin", a, "future", "burst", 2), 0))
        for kind in KINDS:
            for join in ("zip:1", "zip:2", "union"):
                for l, r in (("", ""), ("buffer:1", ""), ("map_async:1", "buffer:2"), ("buffer:1", "map_async:2")):
                    hard = "map_async" in (l + r)
                    jobs.append((("join", join, l, r, kind, "await", 3 if not hard else 2), 1 if not hard else 0))
                    jobs.append((("join", join, l, r, kind, "burst", 2), 1 if not hard else 0))
    # rarely used forms of map_async: extra (keyword) arguments, None as a result, a failing coroutine behind a real source
    for nd in ("map_async_kw:1", "map_async_kw:2", "map_async_none:1", "map_async_none:2"):
        jobs.append((("chain", nd, "future", "await", 3, 1), 1))
        jobs.append((("chain", nd, "native", "burst", 3, 1), 1))
    for a in ("buffer:1", "map_async:1", "rate_limit:1", "timed_window:1", "partition:2:1", "delay:1"):
        heavy = a.startswith(("timed_window", "partition", "delay", "rate_limit"))
        jobs.append((("chain", a, "done", "burst", 3, 1), 0 if heavy else 1))
        jobs.append((("chain", a, "value", "burst", 3, 1), 0 if heavy else 1))     # a consumer function that returns a plain value
        jobs.append((("chain", a, "custom", "await", 3, 1), 0 if heavy else 1))
    # a de-duplicating window is lossless as long as the keys are distinct: all consumer kinds
    for kind in KINDS:
        jobs.append((("chain", "timed_window_unique:1:ident:first", kind, "await", 3, 1), 0))
        jobs.append((("chain", "timed_window_unique:1:ident:last", kind, "burst", 3, 1), 0))
    for nd in ("map_async:1", "map_async:2", "map_async_failing:1", "map_async_failing:2", "buffer:1,map_async_failing:1"):
        jobs.append((("srcchain", nd, "future", 4), 1))
    return jobs


def check(ctx):
    jobs = plan(ctx)
    if getattr(ctx, "only", None):
        jobs = [j for j in jobs if ctx.only in spar._kstr(j[0])]
    res = spar.run_scenarios(ctx, MOD, jobs, cap=400000 if ctx.thorough else 60000)
    return spar.report_from(
        ctx, MOD, res, bounds=sorted(set(b for _, b in jobs)),
        rule="every schedule of producer emits, loop iterations, consumer / mapped-coroutine completions (any order) and timer "
             "expirations with <= d deviations, for each pipeline x consumer kind; distinct = distinct final observation logs",
        assumptions=["virtual event loop; callbacks take zero time", "elements are distinct ints; map_async function is identity behind a harness-resolved gate"])


def replay(ctx, rep):
    x = spar.replay_finding(MOD, rep)
    for v in x.violations:
        print("  replayed:", v)
    return not x.violations
