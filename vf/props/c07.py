"""C07 — windowed aggregations equal pandas on exactly the rows inside the window (engine F).

window(n=N), N in {1,2,3}; window(value=T), T in {1s,2s,3s} on a seconds grid and {1ns,2ns} on a
nanosecond grid (non-decreasing DatetimeIndex, increments {0,1,2}: duplicates, rows exactly on and
next to the edge).  Aggregations sum,count,mean,var,std,size,value_counts, full()/apply, frame sum and
groupby(col | window series | streaming series).sum/count/size/mean/var/std.
Oracle: pandas on the last N rows / on the rows with index > newest - T.  value_counts: zero-count
leftovers are tolerated, a non-zero count for an absent value is a violation; groupby: the index must
equal the keys present in the window.
"""
from .. import frames as F

MOD = __name__
SPECS = {}


def _chain(*preds):
    def f(info):
        for name, p in preds:
            if p(info):
                return name
        return None
    return f


# row-at-window-edge: the input has a row at exactly newest-T+1ns next to an expiring row in one batch AND the
# observation is exactly what the model of the recorded defect (inclusive cut in diff_loc) predicts; anything
# else on such inputs is classified by the generic predicates and is therefore never a known finding
CLS = _chain(("row-at-window-edge", F.p_explained_by_inclusive_cut), *F.GENERIC)

WINS = [("n", 1), ("n", 2), ("n", 3), ("t", "1s"), ("t", "2s"), ("t", "3s"), ("t", "1ns"), ("t", "2ns")]
XY = ["x", "y"]


def wlabel(w):
    return "window(n=%d)" % w[1] if w[0] == "n" else "window(value=%s)" % w[1]


def wsite(w):
    return "window(n)" if w[0] == "n" else "window(value)"


def W(d, w):
    return d.window(n=w[1]) if w[0] == "n" else d.window(value=w[1])


def add(w, name, agg, oracle=None, zero_ok=False, cols=("x",), rank=None):
    key = "%s.%s" % (wlabel(w), name)
    site = "%s.%s" % (wsite(w), name.split("[")[0])
    SPECS[key] = F.Spec(key, site, "window", lambda d: agg(W(d, w)), oracle or agg, win=w, zero_ok=zero_ok,
                        classify=CLS, cols=cols, rank=rank)
    return key


def _two(first, second):
    """two aggregations alive on the same window, the checked one built first"""
    def f(x):
        a = first(x)
        b = second(x)
        if hasattr(b, "stream"):
            f.keep = b.stream.sink_to_list()
        return a
    return f


VAL, VCK, GCOL, GSER, GSTREAM, EXTRA = {}, {}, {}, {}, {}, {}
GOPS = ("sum", "count", "size", "mean", "var", "std")
for w in WINS:
    v = VAL[w] = []
    for op in ("sum", "count", "mean", "var", "std"):
        v.append(add(w, op, lambda x, op=op: getattr(x.x, op)()))
    v.append(add(w, "var[ddof=0]", lambda x: x.x.var(ddof=0)))
    v.append(add(w, "std[ddof=0]", lambda x: x.x.std(ddof=0)))
    v.append(add(w, "size", lambda x: x.x.size))
    v.append(add(w, "value_counts", lambda x: x.x.value_counts(), zero_ok=True, rank=0))
    v.append(add(w, "full", lambda x: x.full(), lambda view: view, cols=XY))
    v.append(add(w, "apply", lambda x: x.apply(lambda df: df.x.max()), lambda view: view.x.max()))
    v.append(add(w, "sum[frame]", lambda x: x[XY].sum(), cols=XY))
    v.append(add(w, "mean[frame]", lambda x: x[XY].mean(), cols=XY))
    v.append(add(w, "sum[x*y+1]", lambda x: (x.x * x.y + 1).sum(), cols=XY))      # arithmetic inside the window
    VCK[w] = [add(w, "value_counts[k]", lambda x: x.k.value_counts(), zero_ok=True, rank=1)]
    GCOL[w] = [add(w, "groupby(col).%s" % op, lambda x, op=op: getattr(x.groupby("k").x, op)()) for op in GOPS]
    GCOL[w].append(add(w, "groupby(col).var[ddof=0]", lambda x: x.groupby("k").x.var(ddof=0)))
    GSER[w] = [add(w, "groupby(series).%s" % op, lambda x, op=op: getattr(x.groupby(x.k).x, op)()) for op in GOPS]
    # grouper = a streaming series that is not a Window (zip of root and grouper streams)
    key = "%s.groupby(stream).sum" % wlabel(w)
    SPECS[key] = F.Spec(key, "%s.groupby(series).sum" % wsite(w), "window",
                        lambda d, w=w: W(d, w).groupby(d.k).x.sum(), lambda view: view.groupby(view.k).x.sum(),
                        win=w, classify=CLS, rank=1)
    GSTREAM[w] = [key]
    # second catalogue: other ddof values, frame-wide size, the windowed groupby std with ddof, two pipelines at once
    x2 = EXTRA[w] = []
    x2.append(add(w, "var[ddof=2]", lambda x: x.x.var(ddof=2)))
    x2.append(add(w, "std[ddof=2]", lambda x: x.x.std(ddof=2)))
    x2.append(add(w, "size[frame]", lambda x: x[XY].size, cols=XY))
    x2.append(add(w, "count[frame]", lambda x: x[XY].count(), cols=XY))
    x2.append(add(w, "var[frame]", lambda x: x[XY].var(), cols=XY))
    x2.append(add(w, "groupby(col).std[ddof=0]", lambda x: x.groupby("k").x.std(ddof=0)))
    x2.append(add(w, "groupby(col).var[ddof=2]", lambda x: x.groupby("k").x.var(ddof=2)))
    x2.append(add(w, "groupby(series).std[ddof=0]", lambda x: x.groupby(x.k).x.std(ddof=0)))
    x2.append(add(w, "groupby(col).mean[frame]", lambda x: x.groupby("k")[XY].mean(), cols=XY))
    x2.append(add(w, "sum[10-x]", lambda x: (10 - x.x).sum()))            # reflected operator: the window is the second operand
    x2.append(add(w, "mean[2/x]", lambda x: (2 / x.x).mean()))
    x2.append(add(w, "groupby(index).sum", lambda x: x.groupby(x.index).x.sum()))
    x2.append(add(w, "groupby(index).size", lambda x: x.groupby(x.index).x.size()))
    x2.append(add(w, "two:var(ddof=1)|var(ddof=0)", _two(lambda x: x.x.var(ddof=1), lambda x: x.x.var(ddof=0))))
    x2.append(add(w, "two:groupby.var(ddof=1)|var(ddof=0)", _two(lambda x: x.groupby("k").x.var(ddof=1), lambda x: x.groupby("k").x.var(ddof=0))))
    x2.append(add(w, "two:groupby.var(ddof=0)|var(ddof=1)", _two(lambda x: x.groupby("k").x.var(ddof=0), lambda x: x.groupby("k").x.var(ddof=1))))
    if w[0] == "t":
        import pandas as _pd
        key = "%s.sum[Timedelta]" % wlabel(w)
        SPECS[key] = F.Spec(key, "%s.sum" % wsite(w), "window", lambda d, w=w: d.window(_pd.Timedelta(w[1])).x.sum(), lambda view: view.x.sum(),
                            win=w, classify=CLS, rank=1)
        x2.append(key)
        key = "%s.count[value=Timedelta]" % wlabel(w)
        SPECS[key] = F.Spec(key, "%s.count" % wsite(w), "window", lambda d, w=w: d.window(value=_pd.Timedelta(w[1])).x.count(), lambda view: view.x.count(),
                            win=w, classify=CLS, rank=1)
        x2.append(key)
        # the duration given positionally: window('2s')
        key = "%s.sum[positional]" % wlabel(w)
        SPECS[key] = F.Spec(key, "%s.sum" % wsite(w), "window", lambda d, w=w: d.window(w[1]).x.sum(), lambda view: view.x.sum(),
                            win=w, classify=CLS, rank=1)
        x2.append(key)
    else:
        key = "%s.sum[positional]" % wlabel(w)
        SPECS[key] = F.Spec(key, "%s.sum" % wsite(w), "window", lambda d, w=w: d.window(w[1]).x.sum(), lambda view: view.x.sum(),
                            win=w, classify=CLS, rank=1)
        x2.append(key)

NW = [w for w in WINS if w[0] == "n"]
TS = [w for w in WINS if w[0] == "t" and not w[1].endswith("ns")]
TNS = [w for w in WINS if w[0] == "t" and w[1].endswith("ns")]


def pick(group, w, names):
    return [k for k in group[w] if k.split(".", 1)[1].replace("groupby(col).", "").replace("groupby(series).", "") in names]


def plan(ctx):
    su = []
    th = ctx.thorough
    # ---- row windows ----
    for w in NW:
        if th:
            su.append(F.Suite(VAL[w], "v", {1: 2, 2: 2, 3: 2, 4: 2}))
            if w[1] > 1:
                su.append(F.Suite([k for k in VAL[w] if "[frame]" not in k], "v", {5: 1}))
            su.append(F.Suite(VCK[w], "k", {1: 2, 2: 2, 3: 2, 4: 2, 5: 1}))
            su.append(F.Suite(GCOL[w] + GSER[w] + GSTREAM[w], "kv", {1: 2, 2: 2, 3: 0}))
            su.append(F.Suite(GCOL[w], "kv", {3: 1}))
            su.append(F.Suite(GCOL[w] + GSER[w] + GSTREAM[w], "kv3", {3: 2}))
            su.append(F.Suite(GCOL[w] + pick(GSER, w, ("sum", "size", "var")), "kv3", {4: 1}))
        else:
            su.append(F.Suite(VAL[w], "v", {1: 1, 2: 1, 3: 1}))
            su.append(F.Suite(VCK[w], "k", {1: 1, 2: 1, 3: 1, 4: 1}))
            grp = GCOL[w] + GSER[w] + GSTREAM[w] if w[1] == 2 else GCOL[w] + pick(GSER, w, ("sum", "size", "var"))
            su.append(F.Suite(grp, "kv", {1: 0, 2: 0}))
            su.append(F.Suite(grp, "kv3", {1: 1, 2: 1}))
            su.append(F.Suite(GCOL[w], "kv3", {3: 1 if w[1] == 2 else 0}))
            su.append(F.Suite(pick(GSER, w, ("sum", "size", "var")), "kv3", {3: 0}))
    for w in NW:
        su.append(F.Suite(EXTRA[w], "kv3", {1: 1, 2: 1, 3: 1} if not th else {1: 2, 2: 2, 3: 2, 4: 1}))
        su.append(F.Suite(EXTRA[w], "inc", {3: 0, 4: 0} if not th else {3: 2, 4: 1}))
        zero = pick(VAL, w, ("mean", "sum", "var", "mean[frame]")) + pick(GCOL, w, ("mean",)) + pick(GSER, w, ("mean",))
        su.append(F.Suite(zero, "vz", {1: 1, 2: 1, 3: 1} if not th else {1: 2, 2: 2, 3: 2, 4: 1}))
    # one batch evicting several whole earlier batches of different lengths needs long tables: single-value family
    for w in NW[1:]:
        long_keys = pick(VAL, w, ("sum", "count", "size", "full")) + pick(GCOL, w, ("sum", "size")) + pick(GSER, w, ("size",))
        su.append(F.Suite(long_keys, "one", {5: 1, 6: 1, 7: 0} if th else {5: 0, 6: 0, 7: 0}))
    # ---- time windows ----
    for grid, ws in (("s", TS), ("ns", TNS)):
        for w in ws:
            core_v = pick(VAL, w, ("sum", "count", "full"))
            core_g = pick(GCOL, w, ("sum", "size")) + pick(GSER, w, ("sum", "var"))
            if th:
                su.append(F.Suite(VAL[w], "v", {1: 2, 2: 2, 3: 1}, grid=grid))
                su.append(F.Suite(core_v, "v", {3: 2}, grid=grid))
                su.append(F.Suite(pick(VAL, w, ("sum", "full")), "v", {4: 0}, grid=grid))
                su.append(F.Suite(VCK[w], "k", {1: 2, 2: 2, 3: 1}, grid=grid))
                su.append(F.Suite(GCOL[w] + GSER[w] + GSTREAM[w], "kv", {1: 2, 2: 1}, grid=grid))
                su.append(F.Suite(core_g, "kv3", {3: 1}, grid=grid))
            else:
                su.append(F.Suite(VAL[w], "v", {1: 1, 2: 1}, grid=grid))
                su.append(F.Suite(pick(VAL, w, ("sum", "full")), "v", {3: 0}, grid=grid))
                su.append(F.Suite(VCK[w], "k", {1: 1, 2: 1}, grid=grid))
                su.append(F.Suite(pick(GCOL, w, ("sum", "size", "mean", "var")) + GSER[w][:1] + GSTREAM[w], "kv3", {1: 1, 2: 1}, grid=grid))
            su.append(F.Suite(EXTRA[w], "kv3", {1: 1, 2: 1} if not th else {1: 2, 2: 2, 3: 1}, grid=grid))
            su.append(F.Suite(pick(VAL, w, ("mean", "sum")) + pick(GCOL, w, ("mean",)), "vz", {2: 1} if not th else {2: 2, 3: 1}, grid=grid))
    return su


RULE = ("every table of R rows over (k, x), k in {a,b}, x in {1,2,NaN} (family v: k fixed; k: x fixed; kv: all six rows; kv3: rows "
        "(a,1),(b,2),(a,NaN); one: the single row (a,1) for long tables), every composition into consecutive batches with <= E empty "
        "batches at any position, for time windows every non-decreasing DatetimeIndex with increments {0,1,2} on the s and the ns grid; "
        "one fresh pipeline per (window, aggregation, table, split), compared after every batch with pandas on the window rows. "
        "distinct case = (family, table, time pattern, split); non-trivial = it contains an empty batch, a batch of >= 2 rows "
        "(larger than the smallest window), a NaN, or a repeated key. states = distinct (aggregation, prefix rows, canonical emitted value).")
ASSUME = ["alphabets: x in {1.0, 2.0, NaN}, k in {'a','b'}; window sizes N in {1,2,3}; T in {1s,2s,3s} (s grid), {1ns,2ns} (ns grid)",
          "time index non-decreasing, first row fixed at 2000-01-01 (only differences are used by the code under test)",
          "pandas on the last N rows / on rows with index > newest - T is the reference; NaN where pandas yields NaN",
          "value_counts: zero-count leftovers tolerated (only present values must carry their exact count)",
          "a prefix with no rows obliges nothing (exceptions there are counted as empty_prefix_exceptions)",
          "example frame = first row of the table; tolerance 1e-9; names and dtype-only differences ignored"]


def check(ctx):
    return F.check(ctx, MOD, plan(ctx), RULE, ASSUME,
                   notes=["full window checked through full() and apply(func)",
                          "series groupers: the Window's own column (w.groupby(w.k)) and a plain streaming series (w.groupby(sdf.k))"])


def replay(ctx, rep):
    return F.replay(ctx, rep)
