"""C10 — metadata travels with exactly the data it describes.  Engine Q: the C01 program space,
every element emitted with zero, one or two metadata dictionaries (part of the BFS alphabet);
the metadata delivered with every recorder event must be a flat list of dicts identical (by
object identity) to the concatenation, in provenance order, of the metadata of the contributing
input elements.  Timing nodes are covered by the engine-S scenarios of C04/C05 (their
recorders see metadata too) — see c10 extension below."""
from . import c01


def check(ctx):
    T = ctx.thorough
    rep = c01.run_space(ctx, "C10", "md", 5 if T else 4, (1, 2), T,
                        "synchronous (loop-less) pipelines; every element carries 0, 1 or 2 metadata dicts",
                        "exception, value, md-shape, md-content, md-identity")
    return rep


replay = c01.replay


# ---- schedule half (engine S): metadata through the timing / buffering nodes -----------------------
from ..sched import Violation   # noqa: E402
from .. import spar              # noqa: E402
from . import c04                # noqa: E402
from ._pipes import flat         # noqa: E402

MOD = __name__


def _probe_class():
    from streamz import Stream

    class MdProbe(Stream):
        """pass-through node that records the metadata delivered with every element"""

        def __init__(self, up, scen):
            self.scen = scen
            Stream.__init__(self, up)

        def update(self, x, who=None, metadata=None):
            ok = isinstance(metadata, list) and all(isinstance(d, dict) for d in metadata)
            self.scen.log.append(("md", "probe", self.scen.loop.time(), c04._fz(x),
                                  tuple(d.get("id") for d in metadata) if ok else repr(metadata)[:80]))
            self.scen.md_events.append((c04._fz(x), metadata))
            return self._emit(x, metadata=metadata)
    return MdProbe


class MdChain(c04.RefChain):
    """element x carries x % 3 metadata dictionaries (0 -> emitted without metadata)"""

    def md(self, x, i):
        k = x % 3
        self.mds[x] = [{"id": (x, j)} for j in range(k)]
        return self.mds[x] if k else None

    def build(self):
        self.mds = {}
        self.md_events = []
        super().build()

    def attach_sink(self, node):
        self.probe = _probe_class()(node, self)
        self.sink = self.probe.sink(self.make_sink_fn(self.params.get("kind", "future"), "S"))

    def check_step(self):
        site = self.site()
        start = getattr(self, "_seen_md", 0)
        self._seen_md = len(self.md_events)
        for value, m in self.md_events[start:]:
            if not (isinstance(m, list) and all(isinstance(d, dict) for d in m)):
                return Violation("md-shape", site, "", dict(value=value, metadata=repr(m)[:120]))
            want = [d for x in flat(value) for d in self.mds.get(x, [])]
            if [d.get("id") for d in m] != [d["id"] for d in want]:
                return Violation("md-content", site, "", dict(value=value, got=[d.get("id") for d in m], want=[d["id"] for d in want]))
            if any(a is not b for a, b in zip(m, want)):
                return Violation("md-identity", site, "", dict(value=value))
        return None

    def check_final(self):
        return self.check_step()


def factory(key):
    node, kind, mode, n, items = key
    return lambda: MdChain(prop="C10", nodes=(node,), kind=kind, mode=mode, n=n, fail=0, items=list(items) if items else None)


def sched_plan(ctx):
    T = ctx.thorough
    jobs = []
    for node in c04.ASYNC_NODES:
        heavy = node.startswith(("timed_window", "partition:2:1", "delay", "rate_limit"))
        jobs.append(((node, "future", "burst", 3, None), 1 if (T or not heavy) else 0))
        if T:
            jobs.append(((node, "native", "await", 4 if not heavy else 3, None), 1))
    for node in c04.UNIQUE_NODES:
        jobs.append(((node, "future", "burst", 4, (1, 3, 2, 4)), 1 if T else 0))
        # a key seen first, then another, then the first again: keep='last' moves the member to the end
        jobs.append(((node, "future", "burst", 3, (1, 2, 5)), 1))
    return jobs


_q_check = check


def check(ctx):   # noqa: F811
    rep = _q_check(ctx)
    jobs = sched_plan(ctx)
    res = spar.run_scenarios(ctx, MOD, jobs, cap=300000)
    srep = spar.report_from(ctx, MOD, res, bounds=[0, 1],
                            rule="schedule half: every buffering / timing node in front of a gated consumer, elements carrying 0, 1 or 2 metadata dicts, "
                                 "every schedule with <= 1 deviation; a pass-through probe records the metadata delivered with every batch",
                            assumptions=["virtual loop; probe node between the node under test and the consumer"])
    for f in srep.findings:
        rep.add(f)
    c, d = rep.coverage, srep.coverage
    for k in ("evaluations", "states", "transitions", "traces_validated_against_impl", "distinct_nontrivial"):
        c[k] = c.get(k, 0) + d.get(k, 0)
    c["rule"] = "sequence half: " + c["rule"] + " || " + d["rule"]
    c["schedule_half"] = dict(scenarios=d["scenarios"], executions=d["evaluations"])
    rep.exhaustive = rep.exhaustive and srep.exhaustive
    rep.assumptions += srep.assumptions
    return rep


_q_replay = replay


def replay(ctx, rep):   # noqa: F811
    if str(rep.get("engine", "")).startswith("sched"):
        x = spar.replay_finding(MOD, rep)
        for v in x.violations:
            print("  replayed:", v)
        return not x.violations
    return _q_replay(ctx, rep)
