"""C10 — metadata travels with exactly the data it describes.  Engine Q: the C01 program space,
every element emitted with zero, one or two metadata dictionaries (part of the BFS alphabet);
the metadata delivered with every recorder event must be a flat list of dicts identical (by
object identity) to the concatenation, in provenance order, of the metadata of the contributing
input elements.  Timing nodes are covered by the engine-S scenarios of C04/C05 (their
recorders see metadata too) — see c10 extension below."""
from . import c01


def check(ctx):
    T = ctx.thorough
    rep = c01.run_space(ctx, "C10", "md", 5 if T else 4, (1, 2), T,
                        "synchronous (loop-less) pipelines; every element carries 0, 1 or 2 metadata dicts",
                        "exception, value, md-shape, md-content, md-identity")
    return rep


replay = c01.replay
