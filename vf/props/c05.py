"""C05 — checkpoint balance.  Schedule-dependent half (engine S, shares scenarios and the
holder reference model with C04); the synchronous half (engine Q) is added by seqbfs."""
from . import c04
from .. import spar

MOD = c04.MOD
factory = c04.factory


def check(ctx):
    rep = c04.check(ctx, prop="C05")
    try:
        from . import c05q
    except ImportError:
        return rep
    return c05q.extend(ctx, rep)


def replay(ctx, rep):
    if rep.get("engine") == "seqbfs":
        from . import c05q
        return c05q.replay(ctx, rep)
    return c04.replay(ctx, rep)
