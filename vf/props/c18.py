"""C18 — source lifecycle: one polling loop at a time, nothing new after stop.  Engine S.

from_periodic / from_iterable / from_textfile on the virtual loop (explicit loop, so the
check is independent of C19), gated or synchronous consumer; events: start, stop (<= L
lifecycle calls in total, placed at every choice point: during the sleep, during a
backpressured emit, between items, before the first cycle ran), consumer completions, ticks.
"""
import io

from ..sched import Scenario, Violation, Injected
from ..threads import ThreadedMixin
from .. import spar

MOD = __name__
POLL = 1.0


class _Ctl:
    """what a control thread 'emits' are lifecycle calls on the source"""

    def __init__(self, scen):
        self.scen = scen

    def emit(self, what):
        (self.scen._start if what == "start" else self.scen._stop)()


class Lifecycle(ThreadedMixin, Scenario):
    close_intervals = 5.0
    # start()/stop() are plain method calls made by the program: several of them in one loop
    # turn (start(); stop(); start()) are ordinary code, not a scheduling deviation
    free_events = ("start", "stop")

    def __init__(self, **p):
        super().__init__(**p)
        self.horizon = p.get("horizon", 2.0)
        self.calls = 0
        self.ref_started = False

    def site(self):
        return self.params["source"]

    def build(self):
        from streamz import Stream
        p = self.params
        kind = p["source"]
        self.opts = opts = tuple(p.get("opts", ()))
        self.crashed_at = None
        self.emitters = []
        if "thread" in opts:
            self.setup_threads()
        if kind == "from_periodic":
            self.counter = 0

            def cb():
                self.counter += 1
                self.log.append(("poll", "src", self.loop.time(), self.counter, self.ref_started))
                if ("pollfail" in opts or "pollcancel" in opts) and self.counter == 2 and self.crashed_at is None:
                    # the polled callable fails once: that polling loop ends, a later stop() + start() begins a new one
                    self.crashed_at = self.loop.time()
                    self.log.append(("crash", "src", self.loop.time(), self.counter))
                    self.counter -= 1
                    if "pollcancel" in opts:
                        import asyncio
                        raise asyncio.CancelledError()       # not an Exception subclass
                    raise Injected("poll")
                return self.counter
            self.source = Stream.from_periodic(cb, poll_interval=POLL, loop=self.ioloop, asynchronous=True, start=bool(p.get("autostart")))
        elif kind == "from_iterable":
            def gen():
                for i in range(p["n"]):
                    self.log.append(("poll", "src", self.loop.time(), i, self.ref_started))
                    yield (None if ("none" in opts and i == 1) else i)        # None is an item like any other
            self.source = Stream.from_iterable(gen(), loop=self.ioloop, asynchronous=True, start=bool(p.get("autostart")))
        elif kind == "from_q":
            import queue
            import streamz.sources as ss
            scen = self

            class Q(queue.Queue):
                def get_nowait(self_inner):
                    item = queue.Queue.get_nowait(self_inner)        # raises Empty when there is nothing: not a poll
                    scen.log.append(("poll", "src", scen.loop.time(), item, scen.ref_started))
                    return item
            q = Q()
            for i in range(p["n"]):
                q.put(i)
            self.source = ss.from_q(q, sleep_time=POLL, loop=self.ioloop, asynchronous=True)
        elif kind == "from_textfile":
            self.file = io.StringIO("".join("r%d\n" % i for i in range(p["n"])))
            scen = self
            real_read = self.file.read

            class F:
                def read(self_inner, *a):
                    data = real_read(*a)
                    scen.log.append(("poll", "src", scen.loop.time(), data, scen.ref_started))
                    return data

                def seek(self_inner, *a):
                    return scen.file.seek(*a)
            self.source = Stream.from_textfile(F(), poll_interval=POLL, loop=self.ioloop, asynchronous=True)
        else:
            raise KeyError(kind)
        self.ctl = self.source
        node = self.source
        if "two" in opts:
            # a second source behind the same node: start() / stop() are called on the node and reach both
            def gen2():
                for i in range(p["n"]):
                    self.log.append(("poll2", "src2", self.loop.time(), 100 + i, self.ref_started))
                    yield 100 + i
            self.source2 = Stream.from_iterable(gen2(), loop=self.ioloop, asynchronous=True)
            node = self.source.union(self.source2)
            self.ctl = node
        unwrap = None
        if "zl" in opts:
            # the source is the lossless input of a zip_latest whose other input already has a value
            self.other = Stream(asynchronous=True, loop=self.ioloop)
            node = node.zip_latest(self.other)
            self.other.emit("o")
            unwrap = lambda t: t[0]       # noqa: E731
        if "deep" in opts:
            # start() / stop() are called two levels below the source
            node = node.map(lambda x: x).filter(lambda x: True)
            self.ctl = node
        inner_sink = self.make_sink_fn(p["kind"], "S")
        if unwrap is not None:
            node.sink(lambda t: inner_sink(unwrap(t)))
        else:
            node.sink((lambda x: inner_sink(1 if x is None else x)) if "none" in opts else inner_sink)
        if "fan" in opts:
            node.sink(self.make_sink_fn("future", "T"))
        if "thread" in opts:
            self.add_emitter("t", _Ctl(self), ["start", "stop", "start"][:p["calls"]])
        if p.get("autostart"):
            # started from the constructor (start=True): the first cycle is already scheduled
            self.log.append(("start", "src", self.loop.time(), False))
            self.ref_started = True
        if p.get("marks"):
            self.clock_marks(p["marks"])

    def extra_events(self):
        if "thread" in self.opts:
            return self.thread_events()
        if self.calls >= self.params["calls"] or self.closing:
            return []
        return [("start", self._start), ("stop", self._stop)]

    def closing_events(self):
        if "thread" in self.opts:
            ev = self.thread_events()
            return ev[0] if ev else None
        return super().closing_events()

    def finish(self):
        if "thread" in self.opts:
            self.teardown_threads()

    def on_emit_done(self, *a):
        pass

    def on_emit_raised(self, emitter, i, x, e):
        self.violations.append(Violation("lifecycle-call-raised", self.site(), type(e).__name__, str(e)[:200]))

    def expected_background(self, err):
        if "pollcancel" in self.opts and "Cancel" in (err[1] + err[2]):
            return True
        return ("pollfail" in self.opts and "Injected" in (err[1] + err[2])) or super().expected_background(err)

    def _start(self):
        self.calls += 1
        self.log.append(("start", "src", self.loop.time(), self.ref_started))
        self.ref_started = True
        self.ctl.start()

    def _stop(self):
        self.calls += 1
        self.log.append(("stop", "src", self.loop.time(), self.ref_started))
        self.ref_started = False
        self.ctl.stop()

    def closing_hook(self):
        # stop an endless poller shortly before the end so that the run quiesces and the
        # "nothing after stop" clause is exercised once more
        pass

    def check_step(self):
        return self._check(False)

    def check_final(self):
        return self._check(True)

    def _check(self, final):
        kind = self.params["source"]
        log = self.log
        polls = [e for e in log if e[0] == "poll"]
        ins = [e for e in log if e[0] == "in" and e[1] == "S" and not (isinstance(e[3], int) and e[3] >= 100)]
        for e in log:
            if e[0] == "poll2" and not e[4]:
                return Violation("cycle-after-stop", kind, "second-source", dict(log=[(x[0], x[2]) + tuple(x[3:4]) for x in log][-16:]))
        if final and self.ref_started and "two" in self.opts:
            got2 = [e[3] for e in log if e[0] == "in" and e[1] == "S" and isinstance(e[3], int) and e[3] >= 100]
            if got2 != [100 + i for i in range(self.params["n"])]:
                return Violation("not-all-items", kind, "second-source", dict(got=got2))
        info = dict(log=[(e[0], e[2]) + tuple(e[3:4]) for e in log][-16:])
        # a cycle never *begins* while the source is stopped (per the reference flag)
        if kind == "from_periodic":
            for e in polls:
                if not e[4]:
                    return Violation("cycle-after-stop", kind, "", info)
            # two loops polling side by side: two cycles begin less than one interval apart with no lifecycle call in
            # between (a restart may legitimately begin a cycle early: that is not what the property forbids)
            idx = [i for i, e in enumerate(log) if e[0] == "poll"]
            for i, j in zip(idx, idx[1:]):
                if log[j][2] - log[i][2] < POLL and log[i][2] != self.crashed_at \
                        and not any(e[0] in ("start", "stop") for e in log[i:j]):
                    return Violation("double-loop", kind, "two-cycles-within-one-interval", info)
            vals = [e[3] for e in ins]
            if vals != list(range(1, len(vals) + 1)):
                return Violation("double-loop", kind, "items-out-of-order", info)
            # one cycle at a time: a poll only after the previous emit was consumed
            opened = 0
            for e in log:
                if e[0] == "in":
                    opened += 1
                elif e[0] == "out":
                    opened -= 1
                elif e[0] == "poll" and opened > 0:
                    return Violation("took-next-before-downstream", kind, "", info)
            if final and self.ref_started:
                # the start that counts: the last one made while the source was stopped
                eff = [i for i, e in enumerate(log) if e[0] == "start" and not e[3]]
                crash = [i for i, e in enumerate(log) if e[0] == "crash"]
                if eff and not (crash and crash[-1] > eff[-1]):
                    if not any(i > eff[-1] for i, e in enumerate(log) if e[0] == "poll"):
                        return Violation("no-cycle-after-start", kind, "", info)
        elif kind in ("from_iterable", "from_q"):
            n = self.params["n"]
            taken = [e[3] for e in polls]
            if taken != list(range(len(taken))):
                return Violation("double-loop", kind, "items-out-of-order", info)
            for e in polls:
                if not e[4]:
                    # an item was taken from the iterable while the source was stopped
                    return Violation("cycle-after-stop", kind, "item-taken-while-stopped", info)
            vals = [e[3] for e in ins]
            if len(set(vals)) != len(vals):
                return Violation("double-loop", kind, "item-twice", info)
            if vals != list(range(len(vals))):
                return Violation("double-loop", kind, "items-out-of-order", info)
            opened = 0
            for e in log:
                if e[0] in ("in", "out") and isinstance(e[3], int) and e[3] >= 100:
                    continue          # the other source's item
                if e[0] == "in":
                    opened += 1
                elif e[0] == "out":
                    opened -= 1
                elif e[0] == "poll" and opened > 0:
                    return Violation("took-next-before-downstream", kind, "", info)
            opened = 0
            for e in log:
                if e[0] in ("in", "out") and isinstance(e[3], int) and e[3] >= 100:
                    opened += 1 if e[0] == "in" else -1
                elif e[0] == "poll2" and opened > 0:
                    return Violation("took-next-before-downstream", kind, "second-source", info)
            # an item delivered while the source is stopped: only the one in progress may finish
            stopped_at = None
            for e in log:
                if e[0] == "stop":
                    stopped_at = 0
                elif e[0] == "start":
                    stopped_at = None
                elif e[0] == "in" and e[1] == "S" and stopped_at is not None and not (isinstance(e[3], int) and e[3] >= 100):
                    stopped_at += 1
                    if stopped_at > 1:
                        return Violation("cycle-after-stop", kind, "", info)
            if final and self.ref_started and vals != list(range(n)):
                return Violation("not-all-items", kind, "", info)
        else:   # from_textfile
            n = self.params["n"]
            vals = [e[3] for e in ins]
            opened = 0
            for e in log:
                if e[0] == "in" and e[1] == "S":
                    opened += 1
                    if opened > 1:
                        # the records of one read are handed on one at a time, each after the consumer finished the previous one
                        return Violation("took-next-before-downstream", kind, "", info)
                elif e[0] == "out" and e[1] == "S":
                    opened -= 1
            want = ["r%d\n" % i for i in range(n)]
            if len(set(vals)) != len(vals):
                return Violation("double-loop", kind, "item-twice", info)
            if vals != want[:len(vals)]:
                return Violation("double-loop", kind, "items-out-of-order", info)
            for e in polls:
                if not e[4]:
                    return Violation("cycle-after-stop", kind, "", info)
            idx = [i for i, e in enumerate(log) if e[0] == "poll" and e[3] == ""]
            for i, j in zip(idx, idx[1:]):
                if log[j][2] - log[i][2] < POLL and not any(e[0] in ("start", "stop") for e in log[i:j]):
                    return Violation("double-loop", kind, "two-cycles-within-one-interval", info)
            if final and self.ref_started and vals != want:
                return Violation("not-all-items", kind, "", info)
        return None


def factory(key):
    source, kind, calls, n, horizon = key[:5]
    auto = len(key) > 5 and key[5] == "autostart"
    opts = tuple(key[5].split("+")) if (len(key) > 5 and not auto) else ()
    marks = tuple(0.5 * i for i in range(1, int(horizon * 2) + 1))
    return lambda: Lifecycle(source=source, kind=kind, calls=calls, n=n, horizon=horizon, marks=marks, autostart=auto, opts=opts)


def plan(ctx):
    jobs = []
    if ctx.thorough:
        jobs.append((("from_periodic", "future", 5, 0, 1.0), 0))
        jobs.append((("from_periodic", "future", 4, 0, 2.0), 1))
        jobs.append((("from_iterable", "future", 5, 3, 0.5), 0))
        jobs.append((("from_iterable", "future", 4, 4, 0.5), 1))
        jobs.append((("from_textfile", "future", 4, 3, 1.0), 0))
        jobs.append((("from_textfile", "future", 4, 2, 0.5), 1))
        for src, n, h in (("from_periodic", 0, 2.0), ("from_iterable", 4, 0.5), ("from_textfile", 3, 1.5)):
            jobs.append(((src, "sync", 5, n, h), 1))
    else:
        jobs.append((("from_periodic", "future", 4, 0, 1.5), 1))
        jobs.append((("from_iterable", "future", 4, 3, 0.5), 1))
        jobs.append((("from_textfile", "future", 3, 2, 1.0), 0))
        jobs.append((("from_textfile", "future", 4, 2, 0.5), 0))
        for src, n, h in (("from_periodic", 0, 1.5), ("from_iterable", 3, 0.5), ("from_textfile", 3, 1.0)):
            jobs.append(((src, "sync", 4, n, h), 1))
        jobs.append((("from_periodic", "future", 3, 0, 1.5, "autostart"), 1))
        jobs.append((("from_iterable", "future", 3, 3, 0.5, "autostart"), 1))
    T = ctx.thorough
    # start() / stop() called on a node downstream of two sources; two consumers; a polled callable that fails once;
    # lifecycle calls made from another thread
    jobs.append((("from_iterable", "future", 2, 2, 0.5, "two"), 1 if T else 0))
    jobs.append((("from_iterable", "sync", 4 if T else 3, 2, 0.5, "two"), 1))
    jobs.append((("from_iterable", "future", 2, 2, 0.5, "fan"), 1))
    jobs.append((("from_periodic", "future", 2, 0, 1.5, "fan"), 1 if T else 0))
    jobs.append((("from_q", "future", 3, 3, 1.5), 1))
    jobs.append((("from_q", "future", 2, 5, 1.5), 1 if T else 0))       # a longer backlog in the queue
    jobs.append((("from_q", "sync", 2, 6, 1.5), 1))
    jobs.append((("from_iterable", "future", 3, 3, 0.5, "none"), 1))
    jobs.append((("from_iterable", "future", 2, 3, 0.5, "zl"), 1))          # a combining node between the source and a slow consumer
    jobs.append((("from_periodic", "future", 2, 0, 1.5, "zl"), 0))
    jobs.append((("from_iterable", "future", 3, 3, 0.5, "deep"), 1))
    jobs.append((("from_periodic", "sync", 3, 0, 1.5, "deep"), 1))
    jobs.append((("from_periodic", "sync", 4, 0, 2.5, "pollcancel"), 1))
    jobs.append((("from_q", "sync", 3, 3, 1.5), 1))
    jobs.append((("from_periodic", "sync", 4, 0, 2.5, "pollfail"), 1))
    jobs.append((("from_periodic", "future", 3, 0, 2.5, "pollfail"), 1 if T else 0))
    for src, n, h in (("from_periodic", 0, 1.5), ("from_iterable", 3, 0.5), ("from_textfile", 2, 1.0)):
        jobs.append(((src, "sync", 3, n, h, "thread"), 1))
        jobs.append(((src, "future", 2, n, h, "thread"), 1))
    return jobs


def check(ctx):
    jobs = plan(ctx)
    if getattr(ctx, "only", None):
        jobs = [j for j in jobs if ctx.only in spar._kstr(j[0])]
    res = spar.run_scenarios(ctx, MOD, jobs, cap=800000 if ctx.thorough else 150000)
    return spar.report_from(
        ctx, MOD, res, bounds=sorted(set(b for _, b in jobs)),
        rule="every history of <= L start/stop calls placed at every choice point of the run (before the first cycle, during the sleep, "
             "during a backpressured emit, between items), interleaved with consumer completions and clock ticks, <= d deviations; "
             "distinct = distinct time-stamped observation logs",
        assumptions=["virtual event loop and clock; sources are given the loop explicitly (binding rules are C19's subject)",
                     "from_iterable is fed an iterator so that a legitimate restart continues rather than re-iterates"])


def replay(ctx, rep):
    x = spar.replay_finding(MOD, rep)
    for v in x.violations:
        print("  replayed:", v)
    return not x.violations
