"""C13 — rate_limit spaces deliveries by >= interval and keeps order; delay keeps
order and count.  Engine S on virtual time (grid 0.5, interval 1.0)."""
from ..sched import Violation, Injected
from .. import spar
from ._pipes import PipeScenario

MOD = __name__


def interval_of(spec):
    a = spec.split(":", 1)[1]
    if a.endswith("ms"):
        return float(a[:-2]) / 1000.0
    if a.endswith("s"):
        return float(a[:-1])
    return float(a)


class RateScenario(PipeScenario):
    close_intervals = 8.0

    def __init__(self, **p):
        super().__init__(**p)
        self.horizon = p.get("horizon", 2.0)
        self.interval = interval_of(p["nodes"][0])
        self.opts = tuple(p.get("opts", ()))

    def build(self):
        if "twoup" not in self.opts:
            return super().build()
        # one timing node fed by two upstream streams (the second attached with connect)
        from streamz import Stream
        p = self.params
        self.src = Stream(asynchronous=True, loop=self.ioloop)
        self.src2 = Stream(asynchronous=True, loop=self.ioloop)
        node = self.build_node(self.src, p["nodes"][0])
        self.src2.connect(node)
        self.nodes = [node]
        self.last = node
        self.attach_sink(node)
        self.make_producers()
        if p.get("marks"):
            self.clock_marks(p["marks"])

    def make_sink_fn(self, kind, name):
        inner = super().make_sink_fn(kind, name)
        if "failsink" not in self.opts:
            return inner
        scen = self

        def f(x):
            r = inner(x)
            if x == 2:
                raise Injected("sink(2)")       # the consumer rejects one element of the line
            return r
        return f

    def expected_background(self, err):
        return ("failsink" in self.opts and "Injected" in (err[1] + err[2])) or super().expected_background(err)

    def make_producers(self):
        p = self.params
        n = p["n"]
        if p["nprod"] == 1:
            self.add_producer("p", self.src, list(range(0, n)), mode=p["mode"])
        else:
            self.add_producer("p", self.src, list(range(0, n - 1)), mode=p["mode"])
            self.add_producer("q", self.src2 if "twoup" in self.opts else self.src, [100], mode=p["mode"])

    def site(self):
        return self.params["nodes"][0].split(":")[0]

    def check_step(self):
        return self._check(False)

    def check_final(self):
        return self._check(True)

    def _check(self, final):
        site = self.site()
        arr = [(e[2], e[3]) for e in self.log if e[0] == "emit"]
        dl = self.delivered_t()
        vals = [v for _, v in dl]
        if len(set(vals)) != len(vals):
            return Violation("duplicate", site, "", dict(arrivals=arr, deliveries=dl))
        want = [v for _, v in arr]
        if vals != want[:len(vals)]:
            return Violation("order", site, "", dict(arrivals=arr, deliveries=dl))
        er = self.emit_raised()
        if "failsink" in self.opts:
            # only the rejected element's own emit may fail
            er = [e for e in er if not (e[3] == 2 and e[4] == "Injected")]
        if er:
            return Violation("emit-raised", site, "", er)
        if site == "rate_limit":
            for (t0, a), (t1, b) in zip(dl, dl[1:]):
                if t1 - t0 < self.interval - 1e-9:
                    return Violation("spacing<interval", site, "", dict(arrivals=arr, deliveries=dl))
            # idle => immediate: arrival at t, everything earlier delivered and the last
            # delivery at least one interval ago => delivered at t
            if self.params["kind"] == "sync":
                dmap = dict((v, t) for t, v in dl)
                for i, (t, v) in enumerate(arr):
                    earlier = [dmap.get(w) for _, w in arr[:i]]
                    if any(x is None for x in earlier):
                        continue
                    if any(x > t for x in earlier):
                        continue
                    lastd = max(earlier) if earlier else None
                    if lastd is None or t - lastd >= self.interval:
                        if v in dmap and dmap[v] != t:
                            return Violation("idle-delayed", site, "", dict(arrivals=arr, deliveries=dl))
                        if v not in dmap and (final or self.loop.time() > t):
                            return Violation("idle-delayed", site, "", dict(arrivals=arr, deliveries=dl))
        if final:
            if vals != want:
                return Violation("loss", site, "", dict(arrivals=arr, deliveries=dl))
            pend = [p.name for p in self.producers if p.inflight()]
            if pend:
                return Violation("emit-pending", site, "", pend)
        return None


def factory(key):
    node, kind, nprod, mode, n, horizon = key[:6]
    opts = tuple(key[6].split("+")) if len(key) > 6 else ()
    grid = 0.25 if interval_of(node) < 1.0 else 0.5
    marks = tuple(grid * i for i in range(1, int(horizon / grid) + 1))
    return lambda: RateScenario(nodes=(node,), kind=kind, nprod=nprod, mode=mode, n=n, marks=marks, horizon=horizon, opts=opts)


def plan(ctx):
    jobs = []
    if ctx.thorough:
        for node in ("rate_limit:1", "delay:1"):
            for mode in ("await", "burst"):
                jobs.append(((node, "sync", 1, mode, 4, 3.0), 1))
                jobs.append(((node, "sync", 2, mode, 4, 2.0), 1))
                jobs.append(((node, "future", 1, mode, 3, 2.0), 1))
                jobs.append(((node, "sync", 1, mode, 3, 2.0), 2))
    else:
        for node in ("rate_limit:1", "delay:1"):
            for mode in ("await", "burst"):
                jobs.append(((node, "sync", 1, mode, 3, 2.0), 1))
                jobs.append(((node, "sync", 2, mode, 3, 1.5), 1))
            jobs.append(((node, "future", 1, "burst", 3, 1.5), 1))
            # the interval given as a string ('1s' goes through convert_interval)
            jobs.append(((node + "s", "sync", 1, "burst", 3, 1.5), 0))
            # four un-awaited elements: two parked behind each other and a late arrival
            jobs.append(((node, "sync", 1, "burst", 4, 2.5), 1))
    for name in ("rate_limit", "delay"):
        T = ctx.thorough
        # fractional intervals, as a number and as a string that is not a whole number of seconds
        jobs.append(((name + ":0.5", "sync", 1, "burst", 3, 1.0), 1))
        jobs.append(((name + ":500ms", "sync", 1, "burst", 3, 1.0), 1 if T else 0))
        jobs.append(((name + ":1500ms", "sync", 1, "burst", 2, 2.0), 0))
        # a consumer that rejects one element: spacing and order of the others are unaffected
        if name == "rate_limit":     # (delay forwards from a loop of its own, which a failing consumer ends: nothing stated)
            jobs.append(((name + ":1", "sync", 1, "burst", 4, 2.5, "failsink"), 1))
            jobs.append(((name + ":1", "sync", 1, "await", 3, 2.0, "failsink"), 1))
        # a long burst (more than a handful in flight at once) and an interval that is not a whole number of milliseconds
        jobs.append(((name + ":1", "sync", 1, "burst", 6, 1.0), 0))         # (the closing phase lets the line drain)
        jobs.append(((name + ":1", "future", 1, "burst", 6, 0.5), 0))
        jobs.append(((name + ":0.3337", "sync", 1, "burst", 3, 1.0), 1 if T else 0))
        # two upstream streams feeding the same node
        jobs.append(((name + ":1", "sync", 2, "burst", 3, 1.5, "twoup"), 1))
        jobs.append(((name + ":1", "future", 2, "await", 3, 1.5, "twoup"), 1 if T else 0))
    return jobs


def check(ctx):
    jobs = plan(ctx)
    res = spar.run_scenarios(ctx, MOD, jobs)
    return spar.report_from(
        ctx, MOD, res, bounds=sorted(set(b for _, b in jobs)),
        rule="every schedule of emits (1-2 producers, awaiting or bursting), loop iterations, consumer completions and "
             "clock ticks on a 0.5 grid with <= d deviations; distinct = distinct (time-stamped) observation logs",
        assumptions=["virtual clock: callbacks take zero time, time()/IOLoop.time() are rebound to the virtual loop",
                     "interval fixed at 1.0 with arrivals on the half-interval grid"])


def replay(ctx, rep):
    x = spar.replay_finding(MOD, rep)
    for v in x.violations:
        print("  replayed:", v)
    return not x.violations
