"""C13 — rate_limit spaces deliveries by >= interval and keeps order; delay keeps
order and count.  Engine S on virtual time (grid 0.5, interval 1.0)."""
from ..sched import Violation
from .. import spar
from ._pipes import PipeScenario

MOD = __name__
INTERVAL = 1.0


class RateScenario(PipeScenario):
    close_intervals = 8.0

    def __init__(self, **p):
        super().__init__(**p)
        self.horizon = p.get("horizon", 2.0)

    def make_producers(self):
        p = self.params
        n = p["n"]
        if p["nprod"] == 1:
            self.add_producer("p", self.src, list(range(1, n + 1)), mode=p["mode"])
        else:
            self.add_producer("p", self.src, list(range(1, n)), mode=p["mode"])
            self.add_producer("q", self.src, [100], mode=p["mode"])

    def site(self):
        return self.params["nodes"][0].split(":")[0]

    def check_step(self):
        return self._check(False)

    def check_final(self):
        return self._check(True)

    def _check(self, final):
        site = self.site()
        arr = [(e[2], e[3]) for e in self.log if e[0] == "emit"]
        dl = self.delivered_t()
        vals = [v for _, v in dl]
        if len(set(vals)) != len(vals):
            return Violation("duplicate", site, "", dict(arrivals=arr, deliveries=dl))
        want = [v for _, v in arr]
        if vals != want[:len(vals)]:
            return Violation("order", site, "", dict(arrivals=arr, deliveries=dl))
        if self.emit_raised():
            return Violation("emit-raised", site, "", self.emit_raised())
        if site == "rate_limit":
            for (t0, a), (t1, b) in zip(dl, dl[1:]):
                if t1 - t0 < INTERVAL:
                    return Violation("spacing<interval", site, "", dict(arrivals=arr, deliveries=dl))
            # idle => immediate: arrival at t, everything earlier delivered and the last
            # delivery at least one interval ago => delivered at t
            if self.params["kind"] == "sync":
                dmap = dict((v, t) for t, v in dl)
                for i, (t, v) in enumerate(arr):
                    earlier = [dmap.get(w) for _, w in arr[:i]]
                    if any(x is None for x in earlier):
                        continue
                    if any(x > t for x in earlier):
                        continue
                    lastd = max(earlier) if earlier else None
                    if lastd is None or t - lastd >= INTERVAL:
                        if v in dmap and dmap[v] != t:
                            return Violation("idle-delayed", site, "", dict(arrivals=arr, deliveries=dl))
                        if v not in dmap and (final or self.loop.time() > t):
                            return Violation("idle-delayed", site, "", dict(arrivals=arr, deliveries=dl))
        if final:
            if vals != want:
                return Violation("loss", site, "", dict(arrivals=arr, deliveries=dl))
            pend = [p.name for p in self.producers if p.inflight()]
            if pend:
                return Violation("emit-pending", site, "", pend)
        return None


def factory(key):
    node, kind, nprod, mode, n, horizon = key
    marks = tuple(0.5 * i for i in range(1, int(horizon * 2) + 1))
    return lambda: RateScenario(nodes=(node,), kind=kind, nprod=nprod, mode=mode, n=n, marks=marks, horizon=horizon)


def plan(ctx):
    jobs = []
    if ctx.thorough:
        for node in ("rate_limit:1", "delay:1"):
            for mode in ("await", "burst"):
                jobs.append(((node, "sync", 1, mode, 4, 3.0), 1))
                jobs.append(((node, "sync", 2, mode, 4, 2.0), 1))
                jobs.append(((node, "future", 1, mode, 3, 2.0), 1))
                jobs.append(((node, "sync", 1, mode, 3, 2.0), 2))
    else:
        for node in ("rate_limit:1", "delay:1"):
            for mode in ("await", "burst"):
                jobs.append(((node, "sync", 1, mode, 3, 2.0), 1))
                jobs.append(((node, "sync", 2, mode, 3, 1.5), 1))
            jobs.append(((node, "future", 1, "burst", 3, 1.5), 1))
            # the interval given as a string ('1s' goes through convert_interval)
            jobs.append(((node + "s", "sync", 1, "burst", 3, 1.5), 0))
            # four un-awaited elements: two parked behind each other and a late arrival
            jobs.append(((node, "sync", 1, "burst", 4, 2.5), 1))
    return jobs


def check(ctx):
    jobs = plan(ctx)
    res = spar.run_scenarios(ctx, MOD, jobs)
    return spar.report_from(
        ctx, MOD, res, bounds=sorted(set(b for _, b in jobs)),
        rule="every schedule of emits (1-2 producers, awaiting or bursting), loop iterations, consumer completions and "
             "clock ticks on a 0.5 grid with <= d deviations; distinct = distinct (time-stamped) observation logs",
        assumptions=["virtual clock: callbacks take zero time, time()/IOLoop.time() are rebound to the virtual loop",
                     "interval fixed at 1.0 with arrivals on the half-interval grid"])


def replay(ctx, rep):
    x = spar.replay_finding(MOD, rep)
    for v in x.violations:
        print("  replayed:", v)
    return not x.violations
