"""C17 — file-based sources deliver every record exactly once however the data arrives.

Engine S.  from_textfile over an in-memory append-only file (quick) or a real temporary
file written at byte level (thorough): for every text over a tiny alphabet, every
composition of it into write chunks (records and multi-character delimiters split
everywhere), the explorer enumerates every placement of polls between the writes.
filenames: a fake directory behind the `streamz.sources.glob` seam, files created in every
order between polls, glob answering in every permutation.
"""
import itertools
import os
import shutil
import tempfile

from ..sched import Scenario, Violation
from .. import spar

MOD = __name__
POLL = 1.0


class MemFile:
    """append-only text file as the source sees it: read() returns what was appended
    since the previous read; seek(0, 2) jumps to the end"""

    def __init__(self, scen, initial=""):
        self.scen = scen
        self.data = initial
        self.pos = 0

    def append(self, chunk):
        self.data += chunk

    def read(self, *a):
        out = self.data[self.pos:]
        self.pos = len(self.data)
        self.scen.log.append(("read", "file", self.scen.loop.time(), out))
        return out

    def seek(self, off, whence=0):
        assert (off, whence) == (0, 2)
        self.pos = len(self.data)


class TextScenario(Scenario):
    close_intervals = 3.0
    free_events = ("start", "stop")

    def __init__(self, **p):
        super().__init__(**p)
        self.horizon = p.get("horizon", 3.0)
        self.written = ""
        self.next_chunk = 0
        self.lifecycle_calls = 0
        self.tmpdir = None

    def site(self):
        return "from_textfile"

    def expected_background(self, err):
        return False

    def build(self):
        from streamz import Stream
        p = self.params
        self.delim = p["delim"]
        pre = p.get("pre", "")
        if p.get("real"):
            self.tmpdir = tempfile.mkdtemp(prefix="vf_c17_")
            path = os.path.join(self.tmpdir, "f.txt")
            with open(path, "wb") as f:
                f.write(pre.encode("utf-8"))
            self.wfile = open(path, "ab")
            rf = open(path, "r", encoding="utf-8", newline="")
            self.rfile = rf
            fileobj = rf
            if p.get("kind") == "bypath":
                fileobj = path            # the source is given the path and opens the file itself
        else:
            self.mem = MemFile(self, pre)
            fileobj = self.mem
        self.pre = pre
        self.source = Stream.from_textfile(fileobj, poll_interval=POLL, delimiter=self.delim,
                                           from_end=p.get("from_end", False), loop=self.ioloop, asynchronous=True)
        kind = p.get("kind") or "sync"
        self.source.sink(self.make_sink_fn("sync" if kind == "bypath" else kind, "S"))
        self.source.start()
        self.chunks = list(p["chunks"])

    def finish(self):
        if self.tmpdir:
            try:
                self.wfile.close()
                self.rfile.close()
            finally:
                shutil.rmtree(self.tmpdir, ignore_errors=True)

    def extra_events(self):
        evs = []
        if self.next_chunk < len(self.chunks):
            evs.append(("write", self._write))
        if self.lifecycle_calls < self.params.get("lifecycle", 0):
            # redundant start() / stop() + start() around writes and polls must not change what is read
            evs.append(("start", self._start))
            evs.append(("stop", self._stop))
        return evs

    def _start(self):
        self.lifecycle_calls += 1
        self.log.append(("start", "src", self.loop.time(), None))
        self.source.start()

    def _stop(self):
        self.lifecycle_calls += 1
        self.log.append(("stop", "src", self.loop.time(), None))
        self.source.stop()

    def closing_hook(self):
        if self.source.stopped:
            self.source.start()

    def closing_events(self):
        if self.next_chunk < len(self.chunks):
            return ("write", self._write)
        return None

    def _write(self):
        c = self.chunks[self.next_chunk]
        self.next_chunk += 1
        if self.params.get("real"):
            self.wfile.write(c if isinstance(c, bytes) else c.encode("utf-8"))
            self.wfile.flush()
            self.written_bytes = getattr(self, "written_bytes", b"") + (c if isinstance(c, bytes) else c.encode("utf-8"))
            self.written = self.written_bytes.decode("utf-8", errors="ignore")
        else:
            self.mem.append(c)
            self.written += c
        self.log.append(("write", "file", self.loop.time(), c))

    def _expected(self, text):
        parts = text.split(self.delim)
        return [r + self.delim for r in parts[:-1]], parts[-1]

    def check_step(self):
        return self._check(False)

    def check_final(self):
        return self._check(True)

    def _check(self, final):
        got = [e[3] for e in self.log if e[0] == "in"]
        base = "" if self.params.get("from_end") else self.pre
        if final and self.params.get("real"):
            text = base + self.written_bytes.decode("utf-8") if hasattr(self, "written_bytes") else base
        else:
            text = base + self.written
        want, tail = self._expected(text)
        info = dict(written=text, chunks=self.chunks[:self.next_chunk], emitted=got, delimiter=self.delim)
        if len(got) > len(want):
            extra = got[len(want):]
            if got[:len(want)] == want:
                return Violation("tail-leaked", "from_textfile", "", info)
        for i, g in enumerate(got):
            if i >= len(want) or g != want[i]:
                if g in want:
                    clause = "duplicate" if got.count(g) > want.count(g) else "order"
                else:
                    clause = "modified"
                return Violation(clause, "from_textfile", _detail(self), info)
        if final and got != want:
            return Violation("loss", "from_textfile", _detail(self), info)
        return None


def _detail(scen):
    d = scen.delim
    if scen.params.get("real"):
        done = b""
        for c in scen.chunks[:scen.next_chunk]:
            done += c
            try:
                done.decode("utf-8")
            except UnicodeDecodeError:
                return "multibyte-char-split-across-writes"
        return ""
    if len(d) > 1:
        # was the delimiter split across two reads?
        reads = [e[3] for e in scen.log if e[0] == "read" and e[3]]
        for a, b in zip(reads, reads[1:]):
            for k in range(1, len(d)):
                if a.endswith(d[:k]) and b.startswith(d[k:]):
                    return "delimiter-split-across-reads"
    return ""


def glob_match(pattern, name):
    """glob semantics for the fake directory: component by component, * never crosses a separator"""
    import fnmatch
    pp, nn = pattern.split("/"), name.split("/")
    return len(pp) == len(nn) and all(fnmatch.fnmatchcase(n, p) for p, n in zip(pp, nn))


class DirScenario(Scenario):
    close_intervals = 3.0
    free_events = ("start", "stop")

    def __init__(self, **p):
        super().__init__(**p)
        self.horizon = p.get("horizon", 2.0)
        self.present = list(p.get("pre", ()))
        self.to_create = list(p["create"])
        self.nglob = 0
        self.lifecycle_calls = 0
        self.tmpdir = None

    def site(self):
        return "filenames"

    def build(self):
        from streamz import Stream
        import streamz.sources as ss
        self._ss = ss
        self._real_glob = ss.glob
        scen = self
        orders = self.params["orders"]

        pattern = self.params.get("pattern") or "/fake/*.csv"
        if pattern == "<dir>":
            # a plain directory path (it must exist: the source asks os.path.isdir): every file in it matches
            self.tmpdir = tempfile.mkdtemp(prefix="vf_c17d_")
            pattern = self.tmpdir
            self.present = [x.replace("/fake", self.tmpdir) for x in self.present]
            self.to_create = [x.replace("/fake", self.tmpdir) for x in self.to_create]

        def fake_glob(path):
            names = sorted(x for x in scen.present if glob_match(path, x))
            perm = orders[scen.nglob % len(orders)]
            scen.nglob += 1
            # answer in the permutation chosen for this poll (rotated by index)
            out = [names[i] for i in _perm(len(names), perm)]
            scen.log.append(("glob", "dir", scen.loop.time(), tuple(scen._rel(x) for x in out)))
            return out
        ss.glob = fake_glob
        self.source = Stream.filenames(pattern, poll_interval=POLL, loop=self.ioloop, asynchronous=True)
        self.source.sink(self.make_sink_fn(self.params.get("kind", "sync"), "S"))
        self.source.start()

    def finish(self):
        self._ss.glob = self._real_glob
        if self.tmpdir:
            shutil.rmtree(self.tmpdir, ignore_errors=True)

    def extra_events(self):
        evs = []
        if self.to_create:
            evs.append(("create(%s)" % self._rel(self.to_create[0]), self._create))
        if self.lifecycle_calls < self.params.get("lifecycle", 0):
            evs.append(("start", self._start))
            evs.append(("stop", self._stop))
        return evs

    def _start(self):
        self.lifecycle_calls += 1
        self.log.append(("start", "src", self.loop.time(), None))
        self.source.start()

    def _stop(self):
        self.lifecycle_calls += 1
        self.log.append(("stop", "src", self.loop.time(), None))
        self.source.stop()

    def closing_hook(self):
        if self.source.stopped:
            self.source.start()

    def closing_events(self):
        if self.to_create:
            return ("create", self._create)
        return None

    def _rel(self, x):
        return x.replace(self.tmpdir, "<dir>") if self.tmpdir else x

    def make_sink_fn(self, kind, name):
        inner = super().make_sink_fn(kind, name)
        return lambda x: inner(self._rel(x))

    def _create(self):
        f = self.to_create.pop(0)
        if f.startswith("-"):
            # the file goes away (and may come back later under the same name): it has been emitted, it stays emitted
            self.present.remove(f[1:])
            self.ever = getattr(self, "ever", set()) | {f[1:]}
            self.log.append(("delete", "dir", self.loop.time(), self._rel(f[1:])))
            return
        self.present.append(f)
        self.log.append(("create", "dir", self.loop.time(), self._rel(f)))

    def check_step(self):
        return self._check(False)

    def check_final(self):
        return self._check(True)

    def _check(self, final):
        got = [e[3] for e in self.log if e[0] == "in"]
        info = dict(log=[(e[0], e[3]) for e in self.log if e[0] in ("glob", "in", "create")])
        if len(set(got)) != len(got):
            return Violation("duplicate", "filenames", "", info)
        opened = 0
        for e in self.log:
            if e[0] == "in":
                opened += 1
                if opened > 1:
                    return Violation("took-next-before-downstream", "filenames", "", info)
            elif e[0] == "out":
                opened -= 1
        # reference: at each glob answer, new = answer - seen, emitted sorted
        seen = set()
        want = []
        pend = []
        for e in self.log:
            if e[0] == "glob":
                new = sorted(set(e[3]) - seen)
                seen |= set(new)
                want.extend(new)
        if got != want[:len(got)]:
            clause = "unsorted-poll" if sorted(got) == sorted(want[:len(got)]) else "order"
            return Violation(clause, "filenames", "", dict(info, want=want))
        if final:
            seen_by_glob = set(x for e in self.log if e[0] == "glob" for x in e[3])
            must = set(self._rel(x) for x in self.present) | (seen_by_glob & set(self._rel(x) for x in getattr(self, "ever", ())))
            if set(got) != must:
                return Violation("loss", "filenames", "", dict(info, present=[self._rel(x) for x in self.present]))
        return None


def _perm(n, k):
    perms = list(itertools.permutations(range(n)))
    return perms[k % len(perms)] if perms else ()


# ---------------------------------------------------------------------------------------
def compositions(text):
    """all ways to cut text into consecutive non-empty chunks"""
    n = len(text)
    if n == 0:
        yield ()
        return
    for mask in range(1 << (n - 1)):
        out = []
        start = 0
        for i in range(n - 1):
            if mask >> i & 1:
                out.append(text[start:i + 1])
                start = i + 1
        out.append(text[start:])
        yield tuple(out)


def texts(delim, max_records, thorough):
    if delim == "\n":
        recs = ["x", "", "xy"] if thorough else ["x", ""]
    else:
        recs = ["x", "a", "b", "xa", "bx"] if thorough else ["x", "a", "b"]
    tails = ["", "y"] + (["a"] if delim != "\n" else [])
    out = []
    for k in range(0, max_records + 1):
        for combo in itertools.product(recs, repeat=k):
            for t in tails:
                txt = "".join(r + delim for r in combo) + t
                if txt:
                    out.append(txt)
    return sorted(set(out), key=lambda s: (len(s), s))


def factory(key):
    if key[0] == "text":
        _, delim, chunks, from_end, pre, real, maxticks = key[:7]
        lifecycle = key[7] if len(key) > 7 else 0
        kind = key[8] if len(key) > 8 else None
        if real:     # byte-level chunks travel as latin-1 text in the (JSON-able) key
            chunks = tuple(c.encode("latin-1") for c in chunks)
        return lambda: TextScenario(delim=delim, chunks=chunks, from_end=from_end, pre=pre, real=real,
                                    horizon=maxticks * POLL, lifecycle=lifecycle, kind=kind)
    _, pre, create, orders, kind = key[:5]
    pattern = key[5] if len(key) > 5 else None
    lifecycle = key[6] if len(key) > 6 else 0
    return lambda: DirScenario(pre=pre, create=create, orders=orders, kind=kind, horizon=2.0, pattern=pattern, lifecycle=lifecycle)


def plan(ctx):
    jobs = []
    T = ctx.thorough
    for delim in ("\n", "ab"):
        maxlen = 8 if T else 6
        for txt in texts(delim, 3 if T else 2, T):
            if len(txt) > maxlen:
                continue
            for chunks in compositions(txt):
                if len(chunks) > (4 if T else 3):
                    continue
                jobs.append((("text", delim, chunks, False, "", False, min(len(chunks), 3)), 0))
        # from_end with pre-existing terminated content
        for txt in texts(delim, 2, False):
            if len(txt) > 5:
                continue
            for chunks in compositions(txt):
                if len(chunks) <= 2:
                    jobs.append((("text", delim, chunks, True, "x" + delim, False, 2), 0))
                    jobs.append((("text", delim, chunks, False, "x" + delim + "y", False, 2), 0))
    # start()/stop() calls around writes and polls (from_end on and off)
    for delim in ("\n", "ab"):
        for chunks in ((("x" + delim), ("y" + delim)), (("x",), (delim + "y" + delim)), (("x" + delim + "y"), (delim,))):
            chunks = tuple(c if isinstance(c, str) else c[0] for c in chunks)
            for fe, pre in ((True, "p" + delim), (False, ""), (True, "")):
                jobs.append((("text", delim, chunks, fe, pre, False, 2, 2), 0))
                if T:
                    jobs.append((("text", delim, chunks, fe, pre, False, 2, 3), 0))
    if True:
        # real temporary file, byte-level chunks with a two-byte UTF-8 character
        for delim in ("\n", "ab") if T else ("\n",):
            for txt in (["é" + delim + "x" + delim, "xé" + delim + "y", "éa" + delim + "b" + delim + "é"] if T else ["é" + delim + "x" + delim]):
                b = txt.encode("utf-8")
                for cut in compositions(b.decode("latin-1")):
                    if len(cut) <= 3:
                        jobs.append((("text", delim, tuple(cut), False, "", True, 2), 0))
    names = ("/fake/a.csv", "/fake/b.csv", "/fake/c.csv")
    for k in (2, 3):
        for create in itertools.permutations(names[:k]):
            for orders in ((0, 1, 2), (1, 3, 5), (5, 4, 0)) if T else ((0, 1), (1, 5)):
                jobs.append((("dir", (), create, orders, "sync"), 0))
                if T:
                    jobs.append((("dir", (names[2],) if k == 2 else (), create, orders, "future"), 1))
    # stop() while the records of one read are being handed to a slow consumer: the rest of that read is still delivered
    for delim in ("\n", "ab"):
        jobs.append((("text", delim, ("x" + delim + "y" + delim + "z" + delim,), False, "", False, 2, 2, "future"), 1))
        jobs.append((("text", delim, ("x" + delim + "y" + delim, "z" + delim), False, "", False, 2, 1, "future"), 1))
    # four and more records in one read; a three-character delimiter cut 2|1 and 1|2; a record longer than any buffer
    for delim in ("\n", "ab", "abc"):
        jobs.append((("text", delim, (("x" + delim) * 5,), False, "", False, 1), 0))
        jobs.append((("text", delim, (("x" + delim) * 2, ("y" + delim) * 4), False, "", False, 2), 0))
    for txt in ("xabc", "xabcyabc", "abcabc", "xabcab"):
        for chunks in compositions(txt):
            if 2 <= len(chunks) <= 3:
                jobs.append((("text", "abc", chunks, False, "", False, 2), 0))
    jobs.append((("text", "\n", ("x" * 5000, "y" * 5000, "\n", "z\n"), False, "", False, 3), 0))
    jobs.append((("text", "\n", ("x" * 9000, "\n"), False, "", True, 2), 0))
    # the source is given a path (and opens the file itself): what is already in the file counts
    jobs.append((("text", "\n", ("x\n", "y"), False, "p\nq\n", True, 2, 0, "bypath"), 0))
    jobs.append((("text", "\n", ("x\n",), True, "p\n", True, 2, 0, "bypath"), 0))
    # file names of mixed case (plain string order); a file that goes away and comes back
    for create in itertools.permutations(("/fake/B.csv", "/fake/a.csv", "/fake/C.csv")):
        jobs.append((("dir", (), create, (0, 1), "sync"), 0))
    jobs.append((("dir", ("/fake/a.csv",), ("-/fake/a.csv", "/fake/a.csv", "/fake/b.csv"), (0, 1), "sync"), 0))
    jobs.append((("dir", (), ("/fake/a.csv", "-/fake/a.csv", "/fake/b.csv", "/fake/a.csv"), (1, 0), "sync"), 0))
    # delimiters that overlap themselves ('aa', a blank line): every string over {x, delimiter character} up to length 5
    # that contains the delimiter, cut everywhere (runs of delimiter characters longer than the delimiter, read boundaries
    # inside and right after such runs)
    for delim in ("aa", "\n\n"):
        c = delim[0]
        for n in range(2, 6 if T else 5):
            for letters in itertools.product("x" + c, repeat=n):
                txt = "".join(letters)
                if delim not in txt:
                    continue
                for chunks in compositions(txt):
                    if 2 <= len(chunks) <= 3:
                        jobs.append((("text", delim, chunks, False, "", False, min(len(chunks), 2)), 0))
    # a slow consumer: paths are handed on one at a time
    jobs.append((("dir", ("/fake/c.csv",), ("/fake/a.csv", "/fake/b.csv"), (0, 1), "future"), 1))
    # a directory path instead of a pattern; a pattern spanning two directories (same file name in both);
    # stop() / start() between polls (what has been emitted stays emitted)
    for create in itertools.permutations(names[:2]):
        jobs.append((("dir", (), create, (0, 1), "sync", "<dir>"), 0))
        jobs.append((("dir", (names[2],), create, (1, 0), "sync", "/fake/*.csv", 2), 0))
        if T:
            jobs.append((("dir", (names[2],), create, (1, 0), "future", "/fake/*.csv", 3), 1))
    two = ("/fake/a/data.csv", "/fake/b/data.csv", "/fake/a/other.csv")
    for create in itertools.permutations(two[:2]):
        jobs.append((("dir", (two[2],), create, (0, 1), "sync", "/fake/*/*.csv"), 0))
        jobs.append((("dir", (), create, (1, 0), "sync", "/fake/*/data.csv", 1), 0))
    # records containing other line-boundary characters; delimiters that are special in regular expressions
    for delim, txts in (("\n", ("x\ry\n", "\x0c\nx\n", "x\r\n\ry\n", "\x1c\x85\n")), ("|", ("x|y|", "|x|", "x|y")), (".", ("x.y.", "..", "x.")),
                        ("$", ("x$y$",)), ("a.", ("xa.ya.", "xaba."))):
        for txt in txts:
            for chunks in compositions(txt):
                if len(chunks) <= 3:
                    jobs.append((("text", delim, chunks, False, "", False, min(len(chunks), 2)), 0))
    return jobs


def check(ctx):
    jobs = plan(ctx)
    if getattr(ctx, "only", None):
        jobs = [j for j in jobs if ctx.only in spar._kstr(j[0])]
    res = spar.run_scenarios(ctx, MOD, jobs)
    rep = spar.report_from(
        ctx, MOD, res, bounds=sorted(set(b for _, b in jobs)),
        rule="every text over a tiny alphabet (records may contain single delimiter characters) x every composition into write chunks "
             "x every placement of polls between the writes (explorer: write / tick / loop iteration); filenames: every creation order x "
             "glob answer permutations x poll placements; distinct = distinct observation logs",
        assumptions=["quick: in-memory append-only file object with read()/seek(0,2) semantics (trusted fake); thorough adds real temporary files written at byte level",
                     "glob is replaced by a fake directory listing (module-level seam streamz.sources.glob)"])
    rep.coverage["texts_x_chunkings"] = sum(1 for j in jobs if j[0][0] == "text")
    rep.coverage["directory_plans"] = sum(1 for j in jobs if j[0][0] == "dir")
    # keep the evidence file small: per-scenario table summarised
    per = rep.coverage.pop("per_scenario")
    rep.coverage["per_scenario_summary"] = dict(scenarios=len(per), executions=sum(v["executions"] for v in per.values()),
                                                max_executions_in_one=max(v["executions"] for v in per.values()))
    return rep


def replay(ctx, rep):
    key = rep["scenario"]
    key = tuple(tuple(k) if isinstance(k, list) else k for k in key)
    rep = dict(rep, scenario=key)
    x = spar.replay_finding(MOD, rep)
    for v in x.violations:
        print("  replayed:", v)
    return not x.violations
