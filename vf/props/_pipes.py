"""Shared scenario machinery for asynchronous pipelines (C02 C03 C04 C05 C08 C13)."""
from ..sched import Injected, Scenario, Violation, _freeze

LOSSLESS_BUFFERING = ("buffer", "delay", "rate_limit", "map_async", "timed_window", "partition", "latest",
                      "timed_window_unique", "collect")


def parse(spec):
    parts = spec.split(":")
    name = parts[0]
    args = []
    for a in parts[1:]:
        try:
            args.append(int(a))
        except ValueError:
            try:
                args.append(float(a))
            except ValueError:
                args.append(a)
    return name, args


def parity(x):
    return x % 2


def flat(x):
    """flatten delivered batches (lists / tuples) into the element sequence"""
    if isinstance(x, (list, tuple)):
        out = []
        for y in x:
            out.extend(flat(y))
        return out
    return [x]


class PipeScenario(Scenario):
    """src -> nodes... -> sink(kind).  params: nodes (tuple of spec strings), kind,
    n (elements per producer), mode ('await'|'burst'), marks (tuple of clock marks)."""

    def build_node(self, up, spec):
        name, a = parse(spec)
        scen = self
        if name == "buffer":
            return up.buffer(a[0])
        if name == "delay":
            return up.delay(a[0])
        if name == "rate_limit":
            return up.rate_limit(a[0])
        if name == "map":
            return up.map(lambda x: x)
        if name == "filter":
            return up.filter(lambda x: True)
        if name == "flatten":
            return up.map(lambda x: (x,)).flatten()
        if name == "starmap":
            return up.map(lambda x: (x, 0)).starmap(lambda a, b: a)
        if name == "union":
            from streamz import Stream
            self._idle = Stream(asynchronous=up.asynchronous, loop=up.loop) if up.loop is not None else Stream()
            return up.union(self._idle)
        if name == "accumulate_ws":         # with_state=True emits (state, result)
            return up.accumulate(lambda s, x: x, start=0, with_state=True).map(lambda t: t[1])
        if name == "accumulate_ws_nostart":  # ... and the first element takes the no-start branch
            return up.accumulate(lambda s, x: x, with_state=True).map(lambda t: t[1])
        if name == "pluck_list":
            return up.map(lambda x: (x, x)).pluck([0, 1]).map(lambda t: t[0])
        if name == "unique_list":
            return up.unique(hashable=False)
        if name == "stream":                # a bare Stream in the middle of the pipeline (a.connect(b))
            from streamz import Stream
            b = Stream(asynchronous=up.asynchronous, loop=up.loop) if up.loop is not None else Stream()
            up.connect(b)
            return b
        if name == "flatten2":       # two pieces per element: (x, 'a') then (x, 'b')
            return up.map(lambda x: ((x, "a"), (x, "b"))).flatten()
        if name == "flatten3":       # three pieces per element: an earlier piece's consumer may finish after the last two
            return up.map(lambda x: ((x, "a"), (x, "b"), (x, "c"))).flatten()
        if name == "accumulate_nostart":    # first element takes the "state is no_default" branch
            return up.accumulate(lambda s, x: x)
        if name == "pluck":
            return up.map(lambda x: (x,)).pluck(0)
        if name == "accumulate":
            return up.accumulate(lambda s, x: x, start=0)
        if name == "unique":
            return up.unique()
        if name == "slice":
            return up.slice(0)
        if name == "sliding_window":
            return up.sliding_window(a[0] if a else 1)
        if name == "map_async":
            async def f(x):
                g = scen.gate("f:%r" % (x,))
                scen.log.append(("f-in", "f", scen.loop.time(), _freeze(x)))
                await g.fut
                scen.log.append(("f-out", "f", scen.loop.time(), _freeze(x)))
                return x
            return up.map_async(f, parallelism=a[0])
        if name == "map_async_kw":
            # extra positional and keyword arguments reach the mapped coroutine
            async def f(x, k, scale=0):
                g = scen.gate("f:%r" % (x,))
                scen.log.append(("f-in", "f", scen.loop.time(), _freeze(x)))
                await g.fut
                scen.log.append(("f-out", "f", scen.loop.time(), _freeze(x)))
                return x * scale // k
            return up.map_async(f, 1, parallelism=a[0], scale=1)
        if name == "map_async_none":
            # a mapped coroutine whose result is None for even inputs: None is an element like any other
            async def f(x):
                g = scen.gate("f:%r" % (x,))
                scen.log.append(("f-in", "f", scen.loop.time(), _freeze(x)))
                await g.fut
                scen.log.append(("f-out", "f", scen.loop.time(), _freeze(x)))
                return None if x % 2 == 0 else x
            return up.map_async(f, parallelism=a[0])
        if name == "map_async_failing":
            # the mapped coroutine raises for even inputs (default stop_on_exception=False: logged and skipped)
            async def f(x):
                g = scen.gate("f:%r" % (x,))
                scen.log.append(("f-in", "f", scen.loop.time(), _freeze(x)))
                await g.fut
                scen.log.append(("f-out", "f", scen.loop.time(), _freeze(x)))
                if x % 2 == 0:
                    raise Injected("f(%r)" % (x,))
                return x
            return up.map_async(f, parallelism=a[0])
        if name == "map_async_raisecall":
            # the mapped function raises when it is *called* (before any coroutine exists) for element 1
            def f(x):
                if x == 1:
                    raise Injected("f(%r) at call" % (x,))
                g = scen.gate("f:%r" % (x,))
                scen.log.append(("f-in", "f", scen.loop.time(), _freeze(x)))
                out = scen.loop.create_future()

                def done(fut):
                    scen.log.append(("f-out", "f", scen.loop.time(), _freeze(x)))
                    out.set_result(x)
                g.fut.add_done_callback(done)
                return out
            return up.map_async(f, parallelism=a[0])
        if name == "map_async_eager":
            # a mapped function that starts its work when *called* and hands back a future
            # (executor.submit / gen.coroutine style), unlike a lazy native coroutine
            def f(x):
                g = scen.gate("f:%r" % (x,))
                scen.log.append(("f-in", "f", scen.loop.time(), _freeze(x)))
                out = scen.loop.create_future()

                def done(fut):
                    scen.log.append(("f-out", "f", scen.loop.time(), _freeze(x)))
                    if fut.exception() is not None:
                        out.set_exception(fut.exception())
                    else:
                        out.set_result(x)
                g.fut.add_done_callback(done)
                return out
            return up.map_async(f, parallelism=a[0])
        if name == "timed_window":
            return up.timed_window(a[0])
        if name == "timed_window_unique":
            if a[1] == "failkey":
                # the key function raises for element 2 (and is the identity otherwise)
                def key(x):
                    if x == 2:
                        scen.log.append(("gate-failed", "key:2", scen.loop.time(), 2))
                        raise Injected("key(2)")
                    return x
                return up.timed_window_unique(a[0], key=key, keep=a[2])
            if a[1] == "idx0":
                # a key that is not callable: taken by indexing, on (parity, x) pairs made and unmade around the node
                return up.map(lambda x: (x % 2, x)).timed_window_unique(a[0], key=0, keep=a[2]).map(lambda b: tuple(q[1] for q in b))
            return up.timed_window_unique(a[0], key=parity if a[1] == "parity" else (lambda x: x), keep=a[2])
        if name == "partition":
            kw = {}
            if len(a) > 1 and a[1] not in (0, "none"):
                kw["timeout"] = a[1]
            if len(a) > 2 and a[2] == "parity":
                kw["key"] = parity
            return up.partition(a[0], **kw)
        if name == "partition_unique":
            return up.partition_unique(a[0], key=parity if a[1] == "parity" else (lambda x: x), keep=a[2])
        if name == "latest":
            return up.latest()
        if name == "collect":
            self.collect = up.collect()
            return self.collect
        raise KeyError(spec)

    def build(self):
        from streamz import Stream
        p = self.params
        self.src = Stream(asynchronous=True, loop=self.ioloop)
        node = self.src
        self.nodes = []
        for spec in p["nodes"]:
            node = self.build_node(node, spec)
            self.nodes.append(node)
        self.last = node
        self.attach_sink(node)
        self.make_producers()
        if p.get("marks"):
            self.clock_marks(p["marks"])

    def attach_sink(self, node):
        self.sink = node.sink(self.make_sink_fn(self.params.get("kind", "future"), "S"))

    def make_producers(self):
        p = self.params
        n = p.get("n", 3)
        self.add_producer("p", self.src, list(range(1, n + 1)), mode=p.get("mode", "await"))

    # ---- observations ------------------------------------------------------------
    def delivered(self, name="S"):
        return [e[3] for e in self.log if e[0] == "in" and e[1] == name]

    def delivered_t(self, name="S"):
        return [(e[2], e[3]) for e in self.log if e[0] == "in" and e[1] == name]

    def finished(self, name="S"):
        return [e[3] for e in self.log if e[0] == "out" and e[1] == name]

    def emitted(self, pname=None):
        return [e[3] for e in self.log if e[0] == "emit" and (pname is None or e[1] == pname)]

    def emit_raised(self):
        return [e for e in self.log if e[0] == "emit-raised"]


TIMED = ("delay", "rate_limit", "timed_window", "timed_window_unique", "partition")


def needs_clock(nodes):
    for s in nodes:
        name, a = parse(s)
        if name in ("delay", "rate_limit", "timed_window", "timed_window_unique"):
            return True
        if name == "partition" and len(a) > 1 and a[1] not in (0, "none"):
            return True
    return False


class JoinScenario(PipeScenario):
    """two sources, each through an optional node, joined by zip / union -> [post] -> sink.
    params: join ('zip:<maxsize>' | 'union'), left, right (spec or ''), post (tuple), kind, n, mode"""

    def build(self):
        from streamz import Stream
        p = self.params
        self.srcA = Stream(asynchronous=True, loop=self.ioloop)
        self.srcB = Stream(asynchronous=True, loop=self.ioloop)
        self.src = self.srcA
        a = self.build_node(self.srcA, p["left"]) if p.get("left") else self.srcA
        b = self.build_node(self.srcB, p["right"]) if p.get("right") else self.srcB
        jname, ja = parse(p["join"])
        if jname == "zip":
            node = a.zip(b, maxsize=ja[0]) if ja else a.zip(b)
        elif jname == "union":
            node = a.union(b)
        elif jname == "combine_latest":
            node = a.combine_latest(b)
        elif jname == "zip_latest":
            node = a.zip_latest(b)
        else:
            raise KeyError(jname)
        self.join = node
        for spec in p.get("post", ()):
            node = self.build_node(node, spec)
        self.last = node
        self.attach_sink(node)
        n = p.get("n", 2)
        nb = p.get("nb", n)
        self.add_producer("a", self.srcA, [10 + i for i in range(1, n + 1)], mode=p.get("mode", "await"))
        self.add_producer("b", self.srcB, [20 + i for i in range(1, nb + 1)], mode=p.get("mode", "await"))
        if p.get("marks"):
            self.clock_marks(p["marks"])
