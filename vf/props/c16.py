"""C16 — failures reach the emitter, keep node state intact, are never checkpointed.

Engine Q with fault injection: programs over the nodes that call user functions (map, starmap,
filter, accumulate x3, unique(key), partition(key), partition_unique(key), sink) in chain,
fan-out and union shapes; the BFS alphabet is (entry, value, j): the j-th user-function
invocation of this emit raises (j = 0: none).  The reference interpreter runs the same
invocation count with *abort* semantics: steps completed before the failure keep their effect,
the failing node keeps its old state, nothing further is visited.  Oracle: the injected
exception object itself reaches the caller of emit; all later outputs equal the reference's;
the failed element's counter never reaches zero and its callback never fires.
"""
from .. import seqbfs
from ..common import Finding, Report
from . import c01

FN = [
    (("map", "inc"), ("i",), "i"),
    (("map", "pair"), ("i",), "p"),
    (("starmap", "add"), ("p",), "i"),
    (("filter", "odd"), ("i",), "i"),
    (("acc", "add", None, False), ("i",), "i"),
    (("acc", "add", 0, False), ("i",), "i"),
    (("acc", "accrs", 0, True), ("i",), "i"),
    (("unique", None, "parity", True), ("i",), "="),
    (("unique", 1, "ident", False), ("i",), "="),
    (("partition", 2, "parity"), ("i",), "p"),
    (("punique", 2, "parity", "last"), ("i",), "p"),
    (("sinkf", "record"), ("i", "p"), "none"),
    (("sw", 2, True), ("i",), "tn"),
    (("flatten",), ("p", "tn"), "i"),
    (("remove", "odd"), ("i",), "i"),
    (("mapargs",), ("i",), "i"),
    (("filterargs",), ("i",), "i"),
    (("starmapargs",), ("p",), "i"),
    (("accws",), ("i",), "p"),
    (("accrsws",), ("i",), "p"),
    (("accnone",), ("i",), "i"),
    (("punique", 2, "parity", "first"), ("i",), "p"),
    (("sinkf", "rec3"), ("i", "p"), "none"),
    (("sinktxt",), ("i", "p"), "none"),
]
USER_FN = ("map", "starmap", "filter", "acc", "unique", "partition", "punique", "sinkf", "remove", "mapargs", "filterargs", "starmapargs",
           "accws", "accrsws", "accnone", "sinktxt")


def programs(thorough):
    progs = []

    def rec(prefix, t, maxlen):
        if prefix:
            yield tuple(prefix)
        if len(prefix) == maxlen or t == "none":
            return
        for spec, it, ot in FN:
            if t in it:
                yield from rec(prefix + [spec], c01.out_type(t, ot), maxlen)
    CORE = FN[:14]        # chains of three are built from the first catalogue only (the product of all 23 would take hours)

    def rec3(prefix, t):
        if len(prefix) == 3:
            yield tuple(prefix)
            return
        for spec, it, ot in CORE:
            if t in it and t != "none":
                yield from rec3(prefix + [spec], c01.out_type(t, ot))
    for ch in rec([], "i", 2):
        if any(sp[0] in USER_FN for sp in ch):
            progs.append(("chain", c01.prog_chain(ch), ("s",)))
    if thorough:
        for ch in rec3([], "i"):
            if any(sp[0] in USER_FN for sp in ch):
                progs.append(("chain", c01.prog_chain(ch), ("s",)))
    if True:
        # a failing node behind a one-to-many node (needs three nodes: make the pieces, split them, fail)
        for ch in ((("map", "pair"), ("flatten",), ("map", "inc")), (("map", "pair"), ("flatten",), ("acc", "add", 0, False)),
                   (("sw", 2, True), ("flatten",), ("sinkf", "record")), (("map", "pair"), ("flatten",), ("filter", "odd")),
                   (("accws",), ("flatten",), ("unique", None, "parity", True))):
            progs.append(("chain", c01.prog_chain(ch), ("s",)))
    # fan-out: the second branch fails after the first one has completed (and vice versa)
    for a, b in ((("map", "inc"), ("acc", "add", 0, False)), (("acc", "add", None, False), ("sinkf", "record")),
                 (("unique", None, "parity", True), ("filter", "odd")), (("partition", 2, "parity"), ("map", "inc"))):
        for x, y in ((a, b), (b, a)):
            progs.append(("fanout", (("src", "s"), ("node", "n0", x, ("s",)), ("node", "n1", y, ("s",))), ("s",)))
    progs.append(("union", (("src", "s"), ("node", "n0", ("map", "inc"), ("s",)), ("node", "n1", ("filter", "odd"), ("s",)),
                            ("node", "u", ("union",), ("n0", "n1")), ("node", "k", ("acc", "add", 0, False), ("u",))), ("s",)))
    progs.append(("join", (("src", "a"), ("src", "b"), ("node", "m", ("map", "inc"), ("a",)), ("node", "z", ("zip", ()), ("m", "b")),
                           ("node", "k", ("starmap", "add"), ("z",))), ("a", "b")))
    progs.append(("join", (("src", "a"), ("src", "b"), ("node", "c", ("cl", None, ""), ("a", "b")), ("node", "k", ("starmap", "add"), ("c",)),
                           ("node", "f", ("sinkf", "record"), ("k",))), ("a", "b")))
    return progs


def _work(item):
    from .. import bind_repo
    bind_repo()
    shape, prog, entries, mode, depth = item
    ops = []
    for e in entries:
        for x in (1, 2):
            for j in (0, 1, 2, 3):
                ops.append(("e", e, x, 1, j))
    r = seqbfs.bfs(prog, tuple(ops), depth, mode)
    r["prog"] = prog
    r["shape"] = shape
    return r


def check(ctx):
    T = ctx.thorough
    depth = 5 if T else 4
    progs = programs(T)
    items = [(shape, prog, entries, "rc", depth) for shape, prog, entries in progs]
    rep = Report()
    tot = dict(states=0, transitions=0, runs=0, nontrivial=0)
    samples = []
    exhausted = True
    for r in ctx.pmap(_work, items, chunksize=4):
        for k in tot:
            tot[k] += r[k]
        exhausted = exhausted and r["exhausted"]
        if len(samples) < 3 and r["shape"] != "chain":
            samples.append(dict(program=[list(map(str, it)) for it in r["prog"]], states=r["states"], runs=r["runs"]))
        for clause, nid, info, hist in r["violations"]:
            kind, s = c01.spec_str(r["prog"], nid)
            faulted = any(len(h) > 4 and h[4] for h in hist[:-1])
            if clause == "value" and faulted:
                clause = "state-changed"
            rep.add(Finding(clause, c01.KIND_NAME.get(kind, kind), s,
                            dict(engine="seqbfs", mode="rc", program=[list(it) for it in r["prog"]], history=[list(h) for h in hist], observed=info),
                            "program %s history %s :: %s" % ([it[2] if it[0] == "node" else it[1] for it in r["prog"]], list(hist), str(info)[:300])))
    rep.coverage = dict(evaluations=tot["runs"], states=tot["states"], transitions=tot["transitions"], traces_validated_against_impl=tot["runs"],
                        distinct_nontrivial=tot["nontrivial"], programs=len(items), depth=depth, samples=samples,
                        rule="programs over every node type that calls a user function (chains <= %d, fan-out both orders, union, joins) x BFS over (entry, value in {1,2}, "
                             "j = which user-function invocation of this emit raises, 0..3) to depth %d with canonical-state dedup; synchronous (loop-less) mode" % (3 if T else 2, depth))
    rep.exhaustive = exhausted
    rep.assumptions = ["one injected failure per emit (the first failure aborts a directly connected push)",
                       "synchronous loop-less mode here; asynchronous / threaded emit are covered by c16 schedule scenarios when present"]
    return rep


replay = c01.replay


# ---- schedule half (engine S): failures carried by awaitables, asynchronous and threaded emit ----
from ..sched import Violation, Injected   # noqa: E402
from ..threads import ThreadedMixin       # noqa: E402
from .. import spar                        # noqa: E402
from . import c04                          # noqa: E402
from ._pipes import parse, flat            # noqa: E402

MOD = __name__


class _FailOracle:
    """a consumer gate may fail (harness-injected exception): the exception object must reach the
    emitter of the element the consumer was handling, later elements must still be delivered,
    and the failed element's completion must never be signalled"""

    def _failed_elements(self):
        return [(e[3], e[1]) for e in self.log if e[0] == "gate-failed"]

    def fail_check(self, final):
        site = self.site()
        out = []
        for v in self.ref_check(final):          # C04 clauses: callback-after-failure etc.
            if v.clause == "callback-after-failure":
                out.append(Violation("callback-on-failed", site, "", v.info))
        if final:
            failed = self._failed_elements()
            raised = dict((e[3], e) for e in self.log if e[0] == "emit-raised")
            names = [parse(s)[0] for s in self.params["nodes"]]
            direct = not any(nm in ("buffer", "delay", "latest", "timed_window", "map_async", "rate_limit") for nm in names)
            for payload, label in failed:
                for x in flat(payload):
                    if direct and x not in raised:
                        out.append(Violation("not-raised", site, "", dict(element=x, log=c04._short(self.log))))
                    elif direct and raised[x][4] != "Injected":
                        out.append(Violation("wrong-exception", site, raised[x][4], dict(element=x)))
            zeroed = set(e[1] for e in self.log if e[0] == "rc0")
            for payload, label in failed:
                for x in flat(payload):
                    if x in zeroed:
                        out.append(Violation("callback-on-failed", site, "", dict(element=x, log=c04._short(self.log))))
            # elements that did not fail are delivered and finished as usual
            bad = set(x for payload, _ in failed for x in flat(payload))
            want = [x for x in self.emitted() if x not in bad]
            got = [x for b in self.finished() for x in flat(b)]
            if direct and sorted(got) != sorted(want):
                out.append(Violation("state-changed", site, "", dict(finished=self.finished(), emitted=self.emitted(), failed=sorted(bad))))
        return out


class FailAsync(_FailOracle, c04.RefChain):
    def md(self, x, i):
        if self.params.get("nomd"):
            return None           # elements without metadata: _emit's branch that never defers a release
        return super().md(x, i)

    def make_sink_fn(self, kind, name):
        inner = super().make_sink_fn(kind, name)
        pre = self.params.get("prefail")
        if not pre:
            return inner
        scen = self

        def f(x):
            if x == pre[0]:
                # a consumer whose awaitable has already failed when update() returns
                # (a gen.coroutine that raises before its first yield / a pre-failed future)
                exc = Injected("prefailed:%r" % (x,))
                scen.log.append(("in", name, scen.loop.time(), x))
                scen.log.append(("gate-failed", "%s:%r" % (name, x), scen.loop.time(), x))
                if pre[1] == "gen":
                    from tornado import gen

                    @gen.coroutine
                    def g():
                        raise exc
                        yield
                    return g()
                fut = scen.loop.create_future()
                fut.set_exception(exc)
                return fut
            return inner(x)
        return f

    def check_step(self):
        return self.fail_check(False)

    def check_final(self):
        return self.fail_check(True)

    def expected_background(self, err):
        return "Injected" in (err[1] + err[2]) or c04.RefChain.expected_background(self, err)


class FailThreaded(_FailOracle, ThreadedMixin, c04.RefChain):
    def build(self):
        from streamz import Stream
        p = self.params
        self.setup_threads()
        self.src = Stream(asynchronous=False)
        node = self.src
        self.nodes = []
        for spec in p["nodes"]:
            node = self.build_node(node, spec)
            self.nodes.append(node)
        self.attach_sink(node)
        self.add_emitter("p", self.src, list(range(1, p["n"] + 1)), metadata=self.md)

    def finish(self):
        self.teardown_threads()

    def extra_events(self):
        return self.thread_events()

    def closing_events(self):
        ev = self.thread_events()
        return ev[0] if ev else None

    def check_step(self):
        return self.fail_check(False)

    def check_final(self):
        stuck = [t.name for t in self.emitters if t.in_call]
        if stuck:
            return [Violation("thread-stuck", self.site(), "", stuck)]
        return self.fail_check(True)

    def expected_background(self, err):
        return "Injected" in (err[1] + err[2])


def factory(key):
    mode, node, kind, n = key[:4]
    cls = FailAsync if mode.startswith("async") else FailThreaded
    prefail = (2, key[4]) if len(key) > 4 else None
    nomd = len(key) > 5 and key[5] == "nomd"
    nofail = bool(prefail) or "failkey" in node        # (failkey: the only failure is the key function's own)
    return lambda: cls(prop="C04", nodes=(node,), kind=kind, mode="await", n=n, fail=0 if nofail else 1, prefail=prefail, nomd=nomd)


def sched_plan(ctx):
    jobs = []
    T = ctx.thorough
    for node in ("direct", "map", "buffer:1"):
        for kind in ("future", "native", "gen") if (T or node in ("direct", "map")) else ("future",):
            jobs.append((("async", node, kind, 3 if T else 2), 1))
            jobs.append((("threaded", node, kind, 2), 1 if node != "buffer:1" else 0))
    # a key function that raises inside a timing node's update()
    for keep in ("first", "last"):
        jobs.append((("async", "timed_window_unique:1:failkey:%s" % keep, "future", 3), 0))
        jobs.append((("async", "timed_window_unique:1:failkey:%s" % keep, "sync", 3), 1))
    for node in ("direct", "map"):
        for how in ("future", "gen"):
            jobs.append((("async-prefail", node, "future", 3, how), 1))
            jobs.append((("async-prefail", node, "future", 3, how, "nomd"), 1))
    return jobs


_q_check = check


def check(ctx):   # noqa: F811
    rep = _q_check(ctx)
    jobs = sched_plan(ctx)
    res = spar.run_scenarios(ctx, MOD, jobs, cap=300000)
    srep = spar.report_from(ctx, MOD, res, bounds=[0, 1],
                            rule="schedule half: consumers whose awaitable fails (harness gate), asynchronous emit and blocking emit from a baton thread, every schedule with <= 1 deviation",
                            assumptions=["virtual loop; threaded mode under a baton (one runnable thread at a time)"])
    for f in srep.findings:
        rep.add(f)
    c, d = rep.coverage, srep.coverage
    for k in ("evaluations", "states", "transitions", "traces_validated_against_impl", "distinct_nontrivial"):
        c[k] = c.get(k, 0) + d.get(k, 0)
    c["rule"] = "sequence half: " + c["rule"] + " || " + d["rule"]
    c["schedule_half"] = dict(scenarios=d["scenarios"], executions=d["evaluations"], per_scenario=d["per_scenario"])
    rep.exhaustive = rep.exhaustive and srep.exhaustive
    rep.assumptions += srep.assumptions
    return rep


_q_replay = replay


def replay(ctx, rep):   # noqa: F811
    if str(rep.get("engine", "")).startswith("sched"):
        x = spar.replay_finding(MOD, rep)
        for v in x.violations:
            print("  replayed:", v)
        return not x.violations
    return _q_replay(ctx, rep)
