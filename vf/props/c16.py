"""C16 — failures reach the emitter, keep node state intact, are never checkpointed.

Engine Q with fault injection: programs over the nodes that call user functions (map, starmap,
filter, accumulate x3, unique(key), partition(key), partition_unique(key), sink) in chain,
fan-out and union shapes; the BFS alphabet is (entry, value, j): the j-th user-function
invocation of this emit raises (j = 0: none).  The reference interpreter runs the same
invocation count with *abort* semantics: steps completed before the failure keep their effect,
the failing node keeps its old state, nothing further is visited.  Oracle: the injected
exception object itself reaches the caller of emit; all later outputs equal the reference's;
the failed element's counter never reaches zero and its callback never fires.
"""
from .. import seqbfs
from ..common import Finding, Report
from . import c01

FN = [
    (("map", "inc"), ("i",), "i"),
    (("map", "pair"), ("i",), "p"),
    (("starmap", "add"), ("p",), "i"),
    (("filter", "odd"), ("i",), "i"),
    (("acc", "add", None, False), ("i",), "i"),
    (("acc", "add", 0, False), ("i",), "i"),
    (("acc", "accrs", 0, True), ("i",), "i"),
    (("unique", None, "parity", True), ("i",), "="),
    (("unique", 1, "ident", False), ("i",), "="),
    (("partition", 2, "parity"), ("i",), "p"),
    (("punique", 2, "parity", "last"), ("i",), "p"),
    (("sinkf", "record"), ("i", "p"), "none"),
    (("sw", 2, True), ("i",), "tn"),
    (("flatten",), ("p", "tn"), "i"),
]


def programs(thorough):
    progs = []

    def rec(prefix, t, maxlen):
        if prefix:
            yield tuple(prefix)
        if len(prefix) == maxlen or t == "none":
            return
        for spec, it, ot in FN:
            if t in it:
                yield from rec(prefix + [spec], c01.out_type(t, ot), maxlen)
    for ch in rec([], "i", 3 if thorough else 2):
        if any(sp[0] in ("map", "starmap", "filter", "acc", "unique", "partition", "punique", "sinkf") for sp in ch):
            progs.append(("chain", c01.prog_chain(ch), ("s",)))
    # fan-out: the second branch fails after the first one has completed (and vice versa)
    for a, b in ((("map", "inc"), ("acc", "add", 0, False)), (("acc", "add", None, False), ("sinkf", "record")),
                 (("unique", None, "parity", True), ("filter", "odd")), (("partition", 2, "parity"), ("map", "inc"))):
        for x, y in ((a, b), (b, a)):
            progs.append(("fanout", (("src", "s"), ("node", "n0", x, ("s",)), ("node", "n1", y, ("s",))), ("s",)))
    progs.append(("union", (("src", "s"), ("node", "n0", ("map", "inc"), ("s",)), ("node", "n1", ("filter", "odd"), ("s",)),
                            ("node", "u", ("union",), ("n0", "n1")), ("node", "k", ("acc", "add", 0, False), ("u",))), ("s",)))
    progs.append(("join", (("src", "a"), ("src", "b"), ("node", "m", ("map", "inc"), ("a",)), ("node", "z", ("zip", ()), ("m", "b")),
                           ("node", "k", ("starmap", "add"), ("z",))), ("a", "b")))
    progs.append(("join", (("src", "a"), ("src", "b"), ("node", "c", ("cl", None, ""), ("a", "b")), ("node", "k", ("starmap", "add"), ("c",)),
                           ("node", "f", ("sinkf", "record"), ("k",))), ("a", "b")))
    return progs


def _work(item):
    from .. import bind_repo
    bind_repo()
    shape, prog, entries, mode, depth = item
    ops = []
    for e in entries:
        for x in (1, 2):
            for j in (0, 1, 2, 3):
                ops.append(("e", e, x, 1, j))
    r = seqbfs.bfs(prog, tuple(ops), depth, mode)
    r["prog"] = prog
    r["shape"] = shape
    return r


def check(ctx):
    T = ctx.thorough
    depth = 4 if T else 3
    progs = programs(T)
    items = [(shape, prog, entries, "rc", depth) for shape, prog, entries in progs]
    rep = Report()
    tot = dict(states=0, transitions=0, runs=0, nontrivial=0)
    samples = []
    exhausted = True
    for r in ctx.pmap(_work, items, chunksize=4):
        for k in tot:
            tot[k] += r[k]
        exhausted = exhausted and r["exhausted"]
        if len(samples) < 3 and r["shape"] != "chain":
            samples.append(dict(program=[list(map(str, it)) for it in r["prog"]], states=r["states"], runs=r["runs"]))
        for clause, nid, info, hist in r["violations"]:
            kind, s = c01.spec_str(r["prog"], nid)
            faulted = any(len(h) > 4 and h[4] for h in hist[:-1])
            if clause == "value" and faulted:
                clause = "state-changed"
            rep.add(Finding(clause, c01.KIND_NAME.get(kind, kind), s,
                            dict(engine="seqbfs", mode="rc", program=[list(it) for it in r["prog"]], history=[list(h) for h in hist], observed=info),
                            "program %s history %s :: %s" % ([it[2] if it[0] == "node" else it[1] for it in r["prog"]], list(hist), str(info)[:300])))
    rep.coverage = dict(evaluations=tot["runs"], states=tot["states"], transitions=tot["transitions"], traces_validated_against_impl=tot["runs"],
                        distinct_nontrivial=tot["nontrivial"], programs=len(items), depth=depth, samples=samples,
                        rule="programs over every node type that calls a user function (chains <= %d, fan-out both orders, union, joins) x BFS over (entry, value in {1,2}, "
                             "j = which user-function invocation of this emit raises, 0..3) to depth %d with canonical-state dedup; synchronous (loop-less) mode" % (3 if T else 2, depth))
    rep.exhaustive = exhausted
    rep.assumptions = ["one injected failure per emit (the first failure aborts a directly connected push)",
                       "synchronous loop-less mode here; asynchronous / threaded emit are covered by c16 schedule scenarios when present"]
    return rep


replay = c01.replay
