"""C08 — time windows conserve elements and honour their deadline.  Engine S.

timed_window(1), timed_window_unique(1, parity, first|last), partition(n, timeout=1, key)
in front of a gated or synchronous sink; arrivals on a 0.5 grid, in bursts and while the
node is blocked on its consumer.
"""
from ..sched import Violation
from .. import spar
from ._pipes import PipeScenario, parity, parse

MOD = __name__


def seconds(a):
    if isinstance(a, str):
        return float(a[:-2]) / 1000.0 if a.endswith("ms") else float(a[:-1])
    return float(a)


class WindowScenario(PipeScenario):
    close_intervals = 6.0

    def __init__(self, **p):
        super().__init__(**p)
        self.horizon = p.get("horizon", 2.0)
        name, a = parse(p["nodes"][0])
        self.T = seconds(a[1] if name == "partition" else a[0])

    def site(self):
        return self.params["nodes"][0].split(":")[0]

    def make_producers(self):
        p = self.params
        items = list(range(1, p["n"] + 1))
        if p["nodes"][0].startswith("timed_window_unique"):
            items = [0, 2, 1, 3, 4][:p["n"]]        # the first element of a key is a falsy one
        self.add_producer("p", self.src, items, mode=p["mode"])

    # ---- helpers -------------------------------------------------------------------
    def _events(self):
        """log reduced to ('emit', t, x) / ('in', t, batch) / ('out', t, batch)"""
        return [(e[0], e[2], e[3]) for e in self.log if e[0] in ("emit", "in", "out")]

    def _blocked_time(self, t0, t1):
        """total time in [t0, t1] during which the sink had an unfinished batch"""
        opened = {}
        spans = []
        for kind, t, b in self._events():
            if kind == "in":
                opened.setdefault(b, []).append(t)
            elif kind == "out" and opened.get(b):
                spans.append((opened[b].pop(0), t))
        now = self.loop.time()
        for b, ts in opened.items():
            for t in ts:
                spans.append((t, now))
        tot = 0.0
        for a, b in spans:
            lo, hi = max(a, t0), min(b, t1)
            if hi > lo:
                tot += hi - lo
        return tot

    def check_step(self):
        return self._check(False)

    def check_final(self):
        return self._check(True)

    def _check(self, final):
        name, a = parse(self.params["nodes"][0])
        site = name
        ev = self._events()
        arrivals = [(t, x) for k, t, x in ev if k == "emit"]
        batches = [(t, b) for k, t, b in ev if k == "in"]
        at = dict((x, t) for t, x in arrivals)
        members = [x for _, b in batches for x in b]
        info = dict(arrivals=arrivals, batches=batches)
        if self.emit_raised():
            return Violation("emit-raised", site, "", self.emit_raised())
        if len(set(members)) != len(members):
            return Violation("duplicate", site, "", info)
        if any(x not in at for x in members):
            return Violation("invented", site, "", info)
        if name in ("timed_window", "timed_window_unique"):
            # window k = arrivals logged between delivery k-1 and delivery k
            win = []
            k = 0
            for kind, t, x in ev:
                if kind == "emit":
                    win.append(x)
                elif kind == "in":
                    want = self._keep(win, a) if name == "timed_window_unique" else list(win)
                    if list(x) != want:
                        clause = "loss" if set(want) - set(x) else "order"
                        return Violation(clause, site, "", dict(info, window=win, want=want, got=x))
                    win = []
                    k += 1
            if final and win:
                return Violation("loss", site, "left-at-end", dict(info, left=win))
            # deadline: delivered no later than arrival + interval + time blocked downstream
            delivered_at = {}
            for t, b in batches:
                for x in b:
                    delivered_at[x] = t
            for t, x in arrivals:
                d = delivered_at.get(x)
                end = d if d is not None else self.loop.time()
                if d is None and name == "timed_window_unique":
                    continue   # may have been dropped by the keep rule (checked above per window)
                if end > t + self.T + self._blocked_time(t, end) + 1e-9:
                    return Violation("deadline", site, "", dict(info, element=x, arrived=t, delivered=d,
                                                                blocked=self._blocked_time(t, end)))
            return None
        # ---- partition(n, timeout, key) ------------------------------------------------
        n = a[0]
        keyf = parity if (len(a) > 2 and a[2] == "parity") else (lambda x: None)
        for t, b in batches:
            if len(b) > n:
                return Violation("size>n", site, "", info)
            if len(b) == 0:
                return Violation("spurious-batch", site, "empty", info)
            if len(set(keyf(x) for x in b)) != 1:
                return Violation("mixed-keys", site, "", info)
            if len(b) < n:
                first = at[b[0]]
                if t < first + self.T - 1e-9:
                    return Violation("spurious-batch", site, "partial-before-timeout", info)
        # order within and across batches per key == arrival order; conservation
        for key in set(keyf(x) for _, x in arrivals):
            want = [x for _, x in arrivals if keyf(x) == key]
            got = [x for _, b in batches for x in b if keyf(x) == key]
            if got != want[:len(got)]:
                return Violation("order", site, "", dict(info, key=key))
            if final and got != want:
                return Violation("loss", site, "", dict(info, key=key))
        # deadline: timer flushes are loop callbacks, never blocked by the consumer
        delivered_at = {}
        for t, b in batches:
            for x in b:
                delivered_at[x] = t
        for t, x in arrivals:
            d = delivered_at.get(x)
            end = d if d is not None else self.loop.time()
            if end > t + self.T + 1e-9:
                return Violation("deadline", site, "", dict(info, element=x, arrived=t, delivered=d))
        return None

    @staticmethod
    def _keep(win, a):
        keyf = parity if a[1] in ("parity", "idx0") else (lambda x: x)
        keep = a[2]
        out = {}
        if keep == "first":
            for x in win:
                out.setdefault(keyf(x), x)
        else:
            for x in win:
                out.pop(keyf(x), None)
                out[keyf(x)] = x
        return list(out.values())


def factory(key):
    node, kind, mode, n, horizon = key
    grid = 0.25 if ("500ms" in node or ":0.5" in node) else 0.5
    marks = tuple(grid * i for i in range(1, int(horizon / grid) + 1))
    return lambda: WindowScenario(nodes=(node,), kind=kind, mode=mode, n=n, marks=marks, horizon=horizon)


def plan(ctx):
    jobs = []
    if ctx.thorough:
        for node in ("timed_window:1", "timed_window_unique:1:parity:first", "timed_window_unique:1:parity:last"):
            jobs.append(((node, "future", "burst", 3, 2.0), 1))
            jobs.append(((node, "future", "await", 3, 2.0), 1))
            jobs.append(((node, "sync", "burst", 4, 2.0), 1))
        for n in (1, 2, 3):
            for k in ("none", "parity"):
                node = "partition:%d:1:%s" % (n, k)
                jobs.append(((node, "future", "burst", 4 if n > 1 else 3, 2.0), 1))
                jobs.append(((node, "sync", "burst", 4, 2.5), 2))
    else:
        for node in ("timed_window:1", "timed_window_unique:1:parity:first", "timed_window_unique:1:parity:last"):
            jobs.append(((node, "future", "burst", 3, 1.5), 1))
            jobs.append(((node, "sync", "burst", 4, 2.0), 1))
        for n in (1, 2, 3):
            for k in ("none", "parity"):
                node = "partition:%d:1:%s" % (n, k)
                jobs.append(((node, "future", "burst", 3, 1.5), 0 if n == 1 else 1))
                jobs.append(((node, "sync", "burst", 4, 2.0), 1))
    # intervals / timeouts below one second and given as strings; a key taken by indexing
    d = 1 if ctx.thorough else 0
    for node in ("timed_window:0.5", "timed_window:500ms", "timed_window:1s", "timed_window_unique:500ms:parity:last",
                 "partition:2:0.5:none", "partition:3:0.5:parity"):      # (partition takes numbers only)
        jobs.append(((node, "sync", "burst", 3, 1.0 if "1s" not in node else 1.5), 1))
        jobs.append(((node, "future", "burst", 3, 1.0 if "1s" not in node else 1.5), d))
    for keep in ("first", "last"):
        jobs.append((("timed_window_unique:1:idx0:%s" % keep, "sync", "burst", 4, 2.0), 1))
        jobs.append((("timed_window_unique:1:idx0:%s" % keep, "future", "burst", 3, 1.5), 1))
    return jobs


def check(ctx):
    jobs = plan(ctx)
    res = spar.run_scenarios(ctx, MOD, jobs)
    return spar.report_from(
        ctx, MOD, res, bounds=sorted(set(b for _, b in jobs)),
        rule="every schedule of emits, loop iterations, consumer completions and clock ticks (0.5 grid, interval 1.0) "
             "with <= d deviations; distinct = distinct time-stamped observation logs",
        assumptions=["virtual clock; callbacks take zero time", "interval/timeout fixed at 1.0, arrivals on the half-interval grid"])


def replay(ctx, rep):
    x = spar.replay_finding(MOD, rep)
    for v in x.violations:
        print("  replayed:", v)
    return not x.violations
