"""C03 — backpressure: emit waits for downstream, in-flight data is bounded, no deadlock.

Engine S.  (a) when an emit completes, no consumer reachable without crossing a buffering
node is still handling that element (and for 1:1 pass-through pipelines the consumer has
finished it); (b) with buffer(n) / zip(maxsize=n) / map_async(parallelism=n) the number of
elements accepted (emit completed) but not yet handed on never exceeds n (n+1 for map_async:
the job its forwarder is awaiting counts as handed on, pinned by test_map_async);
(c) after the closing phase (all consumers completed) every emit has completed and nothing
is left queued.  Asynchronous mode here; threaded mode in c03 threaded scenarios.
"""
from ..sched import Violation
from .. import spar
from ._pipes import PipeScenario, JoinScenario, flat, needs_clock, parse

MOD = __name__

PASS_THROUGH = ("map", "filter", "flatten", "flatten2", "flatten3", "pluck", "accumulate", "accumulate_nostart", "unique", "slice", "sliding_window",
                "starmap", "union", "partition_unique", "accumulate_ws", "accumulate_ws_nostart", "pluck_list", "unique_list", "stream")
BUFFERING = ("buffer", "delay", "latest", "collect", "timed_window", "timed_window_unique", "map_async", "map_async_eager", "map_async_raisecall")
# (rate_limit is not one of them: its update() sleeps and then awaits its consumer, so an emit through it covers the consumer)


def _site(nodes):
    return "+".join(parse(s)[0] for s in nodes) or "direct"


def _own_outputs(scen, x):
    """batches handed to the consumer during the synchronous push of element x's own emit
    (between its 'emit' log entry and the next one); a batch completed by a later emit is
    handled as part of that later emit and obliges nothing here"""
    out = []
    on = False
    for e in scen.log:
        if e[0] == "emit":
            on = (e[3] == x)
        elif on and e[0] == "in" and x in flat(e[3]):
            out.append(e[3])
    return out


def _passes(spec):
    """the node hands every element it receives to its consumer within the same emit"""
    name, a = parse(spec)
    if name == "partition_unique":
        return a[0] == 1
    return name in PASS_THROUGH


class Chain(PipeScenario):
    close_intervals = 10.0

    def _own_outputs(self, x):
        return _own_outputs(self, x)

    def __init__(self, **p):
        super().__init__(**p)
        self.horizon = 2.0 if needs_clock(p["nodes"]) else 0.0

    def site(self):
        return _site(self.params["nodes"])

    def make_producers(self):
        p = self.params
        n = p["n"]
        md = None
        if p.get("refs"):
            # elements carry checkpoint metadata: _emit then takes its deferred-release path
            from streamz import RefCounter
            loop = self.ioloop
            md = lambda x, i: [{"ref": RefCounter(loop=loop)}]     # noqa: E731
        if p.get("nprod", 1) == 1:
            self.add_producer("p", self.src, list(range(0, n)), mode=p["mode"], metadata=md)
        else:
            self.add_producer("p", self.src, list(range(0, n)), mode=p["mode"], metadata=md)
            self.add_producer("q", self.src, [101, 102][: max(1, n - 1)], mode=p["mode"], metadata=md)

    # (a) evaluated at the moment the emit completes
    def on_emit_done(self, producer, idx, x):
        names = [parse(s)[0] for s in self.params["nodes"]]
        if any(nm in BUFFERING or (nm == "partition" and needs_clock(self.params["nodes"])) for nm in names):
            return
        handling = self._own_outputs(x)
        fin = [b for b in self.finished()]
        if any(b not in fin for b in handling):
            self.violations.append(Violation("emit-before-consumer", self.site(), "consumer-still-handling",
                                             dict(element=x, delivered=self.delivered(), finished=self.finished())))
        elif all(_passes(sp) for sp in self.params["nodes"]) and not handling:
            self.violations.append(Violation("emit-before-consumer", self.site(), "not-yet-delivered",
                                             dict(element=x, delivered=self.delivered())))

    def check_step(self):
        return self._check(False)

    def check_final(self):
        return self._check(True)

    def _bound(self):
        for s in self.params["nodes"]:
            name, a = parse(s)
            if name == "buffer":
                return name, a[0]
            if name in ("map_async", "map_async_eager"):
                return "map_async", a[0] + 1
        return None, None

    def expected_background(self, err):
        return ("map_async_raisecall" in self.site() and "Injected" in (err[1] + err[2])) or super().expected_background(err)

    def emitted(self, pname=None):
        out = super().emitted(pname)
        if "map_async_raisecall" in self.site():
            out = [x for x in out if x != 1]       # element 1 is the one the mapped function refuses
        return out

    def _check(self, final):
        site = self.site()
        er = self.emit_raised()
        if "map_async_raisecall" in site:
            # only the refused element's own emit may fail; everything else flows on (no deadlock)
            er = [e for e in er if not (e[3] == 1 and e[4] == "Injected")]
        if er:
            return Violation("emit-raised", site, er[0][4], er)
        name, bound = self._bound()
        if name and len(self.params["nodes"]) == 1:
            accepted = [e[3] for e in self.log if e[0] == "emit-done"]
            handed = set(flat(self.delivered()))
            occ = [x for x in accepted if x not in handed]
            # buffer: the element its forwarder has just been handed (getter resolved, coroutine
            # not yet resumed) is in nobody's queue for one loop turn; at quiescence the bound is n
            slack = 1 if (name == "buffer" and self.loop.has_ready()) else 0
            if len(occ) > bound + slack:
                return Violation("occupancy>n", site, "", dict(bound=bound, accepted_not_handed_on=occ,
                                                              delivered=self.delivered()))
            if name == "map_async":
                running = [e[3] for e in self.log if e[0] == "f-in"]
                fin = [e[3] for e in self.log if e[0] == "f-out"]
                if len(running) - len(fin) > bound:
                    return Violation("occupancy>n", site, "concurrent-evaluations",
                                     dict(bound=bound, running=running, finished=fin))
        if final:
            pend = [pr.name for pr in self.producers if pr.inflight()]
            if pend:
                return Violation("emit-pending", site, "", dict(pending=pend, delivered=self.delivered()))
            names = [parse(s)[0] for s in self.params["nodes"]]
            if not any(nm in ("sliding_window", "latest", "collect", "partition", "timed_window_unique", "partition_unique") for nm in names):
                got = sorted(x for x in flat(self.delivered()) if not isinstance(x, str))
                if "flatten2" in names:
                    got = sorted(set(got)) if got == sorted(list(set(got)) * 2) else got
                if "flatten3" in names:
                    got = sorted(set(got)) if got == sorted(list(set(got)) * 3) else got
                if got != sorted(self.emitted()):
                    return Violation("queued-at-end", site, "", dict(emitted=self.emitted(), delivered=self.delivered()))
            if sorted(map(repr, self.finished())) != sorted(map(repr, self.delivered())):
                return Violation("consumer-not-finished", site, "", dict(delivered=self.delivered(), finished=self.finished()))
        return None


class FanOut(Chain):
    """one node, two asynchronous consumers: the emit awaitable must cover both"""

    def attach_sink(self, node):
        self.sink = node.sink(self.make_sink_fn(self.params.get("kind", "future"), "S"))
        self.sink2 = node.sink(self.make_sink_fn(self.params.get("kind", "future"), "T"))

    def on_emit_done(self, producer, idx, x):
        for name in ("S", "T"):
            got = [e[3] for e in self.log if e[0] == "in" and e[1] == name and x in flat(e[3])]
            fin = [e[3] for e in self.log if e[0] == "out" and e[1] == name and x in flat(e[3])]
            if not got or len(fin) < len(got):
                self.violations.append(Violation("emit-before-consumer", self.site(), "fan-out:%s" % ("consumer-still-handling" if got else "not-yet-delivered"),
                                                 dict(element=x, consumer=name, log=[(e[0], e[1], e[3]) for e in self.log if e[0] in ("in", "out", "emit")][-10:])))

    def _check(self, final):
        er = self.emit_raised()
        if er:
            return Violation("emit-raised", self.site(), er[0][4], er)
        if final:
            pend = [pr.name for pr in self.producers if pr.inflight()]
            if pend:
                return Violation("emit-pending", self.site(), "fan-out", dict(pending=pend))
            for name in ("S", "T"):
                got = sorted(set(x for x in flat(self.delivered(name)) if not isinstance(x, str)))
                if got != sorted(self.emitted()):
                    return Violation("queued-at-end", self.site(), "fan-out", dict(consumer=name, delivered=self.delivered(name)))
        return None


class Latest2(JoinScenario):
    """zip_latest / combine_latest in front of a gated consumer: an arrival that makes the node emit
    (several tuples at once for zip_latest) completes only when the consumer has finished all of them"""
    close_intervals = 4.0
    horizon = 0.0

    def site(self):
        return parse(self.params["join"])[0]

    def on_emit_done(self, producer, idx, x):
        handling = _own_outputs(self, x)
        fin = [b for b in self.finished()]
        if any(b not in fin for b in handling):
            self.violations.append(Violation("emit-before-consumer", self.site(), "consumer-still-handling",
                                             dict(element=x, delivered=self.delivered(), finished=self.finished())))

    def check_step(self):
        er = self.emit_raised()
        if er:
            return Violation("emit-raised", self.site(), er[0][4], er)
        return None

    def check_final(self):
        pend = [pr.name for pr in self.producers if pr.inflight()]
        if pend:
            return Violation("emit-pending", self.site(), "", dict(pending=pend, delivered=self.delivered()))
        if sorted(map(repr, self.finished())) != sorted(map(repr, self.delivered())):
            return Violation("consumer-not-finished", self.site(), "", dict(delivered=self.delivered(), finished=self.finished()))
        return None


class Zip(JoinScenario):
    close_intervals = 4.0
    horizon = 0.0

    def site(self):
        return "zip"

    def check_step(self):
        return self._check(False)

    def check_final(self):
        return self._check(True)

    def on_emit_done(self, producer, idx, x):
        handling = _own_outputs(self, x)
        fin = [b for b in self.finished()]
        if any(b not in fin for b in handling):
            self.violations.append(Violation("emit-before-consumer", self.site(), "consumer-still-handling",
                                             dict(element=x, delivered=self.delivered(), finished=self.finished())))

    def _check(self, final):
        n = parse(self.params["join"])[1][0]
        er = self.emit_raised()
        if er:
            return Violation("emit-raised", "zip", er[0][4], er)
        ntup = len(self.delivered())
        for pr in self.producers:
            acc = len(pr.completed)
            waiters = pr.inflight()
            if acc - ntup > n:
                return Violation("occupancy>n", "zip", "several-waiters-released" if self.params["mode"] == "burst" else "",
                                 dict(bound=n, producer=pr.name, accepted=acc, tuples=ntup, still_waiting=waiters))
        if final:
            ea, eb = self.emitted("a"), self.emitted("b")
            want = list(zip(ea, eb))
            if self.delivered() != want:
                return Violation("queued-at-end", "zip", "", dict(delivered=self.delivered(), want=want))
            # an emit may stay blocked only because the *other* input starves (more than n of this
            # input's elements are still unpaired); consumers have all completed by now
            for pr in self.producers:
                emitted = len(self.emitted(pr.name))
                if emitted - len(want) <= n and len(pr.completed) < emitted:
                    return Violation("emit-pending", "zip", "", dict(producer=pr.name, completed=len(pr.completed),
                                                                     emitted=emitted, tuples=len(want)))
        return None


class Zip3(Zip):
    """three inputs: more emits can be blocked at once than tuples are formed afterwards"""

    def build(self):
        from streamz import Stream
        p = self.params
        self.srcs = [Stream(asynchronous=True, loop=self.ioloop) for _ in range(3)]
        self.src = self.srcs[0]
        n = parse(p["join"])[1][0]
        self.join = self.srcs[0].zip(self.srcs[1], self.srcs[2], maxsize=n)
        self.last = self.join
        self.attach_sink(self.join)
        for nm, src, base, cnt in zip("abc", self.srcs, (10, 20, 30), p["counts"]):
            self.add_producer(nm, src, [base + i for i in range(1, cnt + 1)], mode=p["mode"])

    def _check(self, final):
        n = parse(self.params["join"])[1][0]
        er = self.emit_raised()
        if er:
            return Violation("emit-raised", "zip", er[0][4], er)
        ntup = len(self.delivered())
        for pr in self.producers:
            if len(pr.completed) - ntup > n:
                return Violation("occupancy>n", "zip", "", dict(bound=n, producer=pr.name, accepted=len(pr.completed), tuples=ntup))
        if final:
            want = list(zip(*[self.emitted(nm) for nm in "abc"]))
            if self.delivered() != want:
                return Violation("queued-at-end", "zip", "", dict(delivered=self.delivered(), want=want))
            for pr in self.producers:
                emitted = len(self.emitted(pr.name))
                if emitted - len(want) <= n and len(pr.completed) < emitted:
                    return Violation("emit-pending", "zip", "", dict(producer=pr.name, completed=len(pr.completed),
                                                                     emitted=emitted, tuples=len(want)))
        return None


def factory(key):
    if key[0] == "zip3":
        _, maxsize, kind, mode, ca, cb, cc = key
        return lambda: Zip3(join="zip:%d" % maxsize, kind=kind, mode=mode, counts=(ca, cb, cc))
    if key[0] in ("fanout", "fanoutref"):
        _, nodes, kind, mode, n = key
        return lambda: FanOut(nodes=tuple(s for s in nodes.split(",") if s), kind=kind, mode=mode, n=n, nprod=1,
                              refs=key[0] == "fanoutref")
    if key[0] == "latest2":
        _, join, kind, mode, na, nb = key
        return lambda: Latest2(join=join, left="", right="", kind=kind, mode=mode, n=na, nb=nb)
    if key[0] in ("chain", "chainref"):
        _, nodes, kind, mode, n, nprod = key
        return lambda: Chain(nodes=tuple(s for s in nodes.split(",") if s), kind=kind, mode=mode, n=n, nprod=nprod, refs=key[0] == "chainref")
    _, maxsize, kind, mode, na, nb = key
    return lambda: Zip(join="zip:%d" % maxsize, left="", right="", kind=kind, mode=mode, n=na, nb=nb)


PLAIN = ["", "map", "filter", "flatten", "flatten2", "pluck", "accumulate", "accumulate_nostart", "unique", "slice",
         "sliding_window:1", "sliding_window:2", "partition:2", "starmap", "union", "partition_unique:1:ident:first",
         "partition_unique:2:ident:last", "accumulate_ws", "accumulate_ws_nostart", "pluck_list", "unique_list", "stream"]


def plan(ctx):
    jobs = []
    T = ctx.thorough
    for nd in PLAIN:
        for kind in (("future", "native", "gen") if T or nd in ("", "map", "slice") else ("future",)):
            jobs.append((("chain", nd, kind, "await", 3, 1), 2 if T else 1))
        jobs.append((("chain", nd, "future", "await", 2, 2), 1))
        jobs.append((("chain", "buffer:1," + nd if nd else "buffer:1", "native", "await", 3, 1), 1))
    for n in (1, 2, 3):
        jobs.append((("chain", "buffer:%d" % n, "future", "await", n + 2, 1), 2 if T else 1))
        jobs.append((("chain", "buffer:%d" % n, "native", "burst", n + 2, 1), 1))
        jobs.append((("chain", "buffer:%d" % n, "future", "await", n + 1, 2), 1))
        jobs.append((("chain", "map_async:%d" % n, "future", "await", n + 2, 1), 1 if T else 0))
        jobs.append((("chain", "map_async:%d" % n, "native", "burst", n + 2 if T else n + 1, 1), 0))
        if n == 1 or T:
            jobs.append((("chain", "map_async_eager:%d" % n, "sync", "burst", n + 3, 1), 0))
        jobs.append((("chain", "map_async_eager:%d" % n, "sync", "await", n + 2, 1), 1 if n == 1 else 0))
        jobs.append((("zip", n, "future", "await", n + 2, 1), 2 if T else 1))
        jobs.append((("zip", n, "native", "await", n + 1, n + 1), 1))
        jobs.append((("zip", n, "future", "burst", n + 2, 1), 1))
    for nd in ("", "map", "buffer:1", "sliding_window:2"):
        jobs.append((("chain", nd, "custom", "await", 3, 1), 1))     # the consumer's own awaitable type
    for mode in ("await", "burst"):
        jobs.append((("chain", "map_async_raisecall:1", "future", mode, 3, 1), 1))
        jobs.append((("chain", "map_async_raisecall:2", "sync", mode, 4, 1), 1 if T else 0))
    # a batch of three pieces behind flatten, every order in which their consumers finish
    jobs.append((("chain", "flatten3", "future", "await", 2, 1), 2 if T else 1))
    jobs.append((("chain", "flatten3", "native", "await", 2, 1), 1))
    for nd in ("", "map", "flatten2"):
        for kind in (("future", "native", "gen") if T else ("future", "native")):
            jobs.append((("fanout", nd, kind, "await", 2, ), 1))
            # elements carrying checkpoint counters: the deferred-release path combines the consumers' awaitables
            jobs.append((("fanoutref", nd, kind, "await", 2, ), 1))
    for j in ("zip_latest", "combine_latest"):
        jobs.append((("latest2", j, "future", "await", 2, 2), 1))
        jobs.append((("latest2", j, "native", "burst", 3, 1), 1 if T else 0))
    jobs.append((("zip3", 1, "future", "burst", 3, 2, 2), 1 if T else 0))
    jobs.append((("zip3", 1, "native", "await", 2, 2, 2), 1))
    if T:
        jobs.append((("zip3", 2, "future", "burst", 4, 3, 2), 0))
    for nd in ("", "map", "buffer:1", "buffer:2", "sliding_window:2", "map_async:1", "rate_limit:1"):
        jobs.append((("chainref", nd, "future", "await", 3, 1), 1 if nd not in ("rate_limit:1",) else 0))
        jobs.append((("chainref", nd, "native", "await", 2, 2), 1 if nd not in ("rate_limit:1", "map_async:1") else 0))
    for nd in ("delay:1", "rate_limit:1", "timed_window:1", "partition:2:1"):
        jobs.append((("chain", nd, "future", "await", 3, 1), 1 if T else 0))
    return jobs


def check(ctx):
    jobs = plan(ctx)
    if getattr(ctx, "only", None):
        jobs = [j for j in jobs if ctx.only in spar._kstr(j[0])]
    res = spar.run_scenarios(ctx, MOD, jobs, cap=600000 if ctx.thorough else 80000)
    return spar.report_from(
        ctx, MOD, res, bounds=sorted(set(b for _, b in jobs)),
        rule="every schedule of producer emits (awaiting / bursting, 1-2 producers), loop iterations, consumer and mapped-coroutine "
             "completions and timers with <= d deviations; distinct = distinct final observation logs",
        assumptions=["virtual event loop; callbacks take zero time", "bounds n in {1,2,3}; 'accepted' = the emit awaitable has completed"])


def replay(ctx, rep):
    x = spar.replay_finding(MOD, rep)
    for v in x.violations:
        print("  replayed:", v)
    return not x.violations


# ---- threaded mode: blocking emit() from real threads under a baton ---------------------------
from ..threads import ThreadedMixin   # noqa: E402


class Threaded(ThreadedMixin, PipeScenario):
    close_intervals = 6.0

    def __init__(self, **p):
        super().__init__(**p)
        self.horizon = 2.0 if needs_clock(p["nodes"]) else 0.0

    def site(self):
        return "threaded/" + _site(self.params["nodes"])

    def build(self):
        from streamz import Stream
        p = self.params
        self.setup_threads()
        self.src = Stream(asynchronous=False)
        node = self.src
        self.nodes = []
        for spec in p["nodes"]:
            node = self.build_node(node, spec)
            self.nodes.append(node)
        self.attach_sink(node)
        n = p["n"]
        self.add_emitter("t", self.src, list(range(0, n)))
        if p.get("nthreads", 1) == 2:
            self.add_emitter("u", self.src, [101, 102][:n])

    def finish(self):
        self.teardown_threads()

    def extra_events(self):
        return self.thread_events()

    def closing_events(self):
        ev = self.thread_events()
        return ev[0] if ev else None

    def on_emit_done(self, producer, idx, x):
        names = [parse(s)[0] for s in self.params["nodes"]]
        if any(nm in BUFFERING or (nm == "partition" and needs_clock(self.params["nodes"])) for nm in names):
            return
        # in threaded mode the 'emit' log entry is written when the thread *calls* emit, the push happens
        # later on the loop (and two threads interleave): the outputs of x's own push are the batches
        # whose newest member is x
        handling = [b for b in self.delivered() if flat(b) and flat(b)[-1] == x]
        fin = [b for b in self.finished()]
        if any(b not in fin for b in handling):
            self.violations.append(Violation("emit-before-consumer", self.site(), "consumer-still-handling",
                                             dict(element=x, delivered=self.delivered(), finished=self.finished())))
        elif all(_passes(sp) for sp in self.params["nodes"]) and not handling:
            self.violations.append(Violation("emit-before-consumer", self.site(), "not-yet-delivered",
                                             dict(element=x, delivered=self.delivered())))

    def check_final(self):
        site = self.site()
        stuck = [t.name for t in self.emitters if t.in_call or t.pos < len(t.items)]
        if stuck:
            return Violation("thread-stuck", site, "", dict(threads=stuck, delivered=self.delivered(), finished=self.finished()))
        er = self.emit_raised()
        if er:
            return Violation("emit-raised", site, er[0][4], er)
        names = [parse(s)[0] for s in self.params["nodes"]]
        if not any(nm in ("sliding_window", "latest", "collect", "partition") for nm in names):
            if sorted(flat(self.delivered())) != sorted(self.emitted()):
                return Violation("queued-at-end", site, "", dict(emitted=self.emitted(), delivered=self.delivered()))
        return None


_async_factory = factory


def factory(key):   # noqa: F811
    if key[0] == "threaded":
        _, nodes, kind, n, nthreads = key
        return lambda: Threaded(nodes=tuple(s for s in nodes.split(",") if s), kind=kind, n=n, nthreads=nthreads)
    return _async_factory(key)


_async_plan = plan


def plan(ctx):   # noqa: F811
    jobs = _async_plan(ctx)
    T = ctx.thorough
    for nd in ("", "map", "slice", "buffer:1", "buffer:1,slice", "buffer:2,map", "map_async:1", "sliding_window:2", "rate_limit:1", "partition:2:1"):
        for kind in (("future", "native", "gen", "sync") if (T or nd in ("", "buffer:1,slice")) else ("future", "sync")):
            jobs.append((("threaded", nd, kind, 2, 1), 1))
        if nd == "":
            jobs.append((("threaded", nd, "future", 2, 2), 1))
        elif nd not in ("map_async:1", "partition:2:1") or T:
            jobs.append((("threaded", nd, "future", 2 if nd not in ("map_async:1", "partition:2:1") else 1, 2), 1 if (T and nd not in ("map_async:1", "partition:2:1")) else 0))
    return jobs
