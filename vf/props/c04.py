"""C04 — checkpoint safety, and the schedule-dependent half of C05 (balance).  Engine S.

src -> N -> sink(gated), every element carries an instrumented RefCounter.  A small
reference model computed from the observation log says, at any log position, which
elements node N still legitimately holds (queued, waiting for a timer, being computed,
last n-1 of a sliding window, unpaired in zip, unflushed in collect; duplicates dropped
by a *_unique node and values overwritten in `latest` are not held).

C04 clauses, evaluated at the log position of every release that brings a counter to <= 0
(the moment the completion callback is scheduled):
  callback-after-failure      the element's processing raised (consumer gate / mapped function failed)
  callback-while-held[inside] the element is still held inside N and no output containing it reached the consumer
  callback-while-held[sink-pending]  an output containing it is being handled by a consumer whose awaitable is unfinished
C05 clauses: negative, rise-after-zero (any time); count!=holders at every quiescent point
with no consumer / mapped function pending; callback-missing / callback-twice at the end.
"""
from ..sched import Violation, Injected
from .. import spar
from ._pipes import PipeScenario, JoinScenario, flat, needs_clock, parse, parity
from ..threads import ThreadedMixin

MOD = __name__


def make_rc(scen, eid, initial=0):
    from streamz import RefCounter

    class RC(RefCounter):
        def retain(self, n=1):
            RefCounter.retain(self, n)
            scen.log.append(("rc", eid, scen.loop.time(), self.count, "retain"))

        def release(self, n=1):
            self.count -= n
            scen.log.append(("rc", eid, scen.loop.time(), self.count, "release"))
            if self.count <= 0 and self.cb:
                scen.log.append(("rc0", eid, scen.loop.time()))
                self.loop.add_callback(self.cb)

    def cb():
        scen.log.append(("cb", eid, scen.loop.time()))
    rc = RC(initial=initial, cb=cb, loop=scen.ioloop)
    scen.rcs[eid] = rc
    return rc


class RefMixin:
    """reference holder model + C04/C05 oracles over self.log"""

    def md(self, x, i):
        opts = self.params.get("opts", ())
        rc = make_rc(self, x, initial=1 if "init1" in opts else 0)
        if "mix1" in opts:        # a second dictionary without a counter, after / before the one with it
            return [{"ref": rc, "id": x}, {"tag": x}]
        if "mix2" in opts:
            return [{"tag": x}, {"ref": rc, "id": x}]
        return [{"ref": rc, "id": x}]

    def emitter_holds(self, log):
        """init1: the caller created the counter with its own hold (initial=1) and lets go explicitly"""
        if "init1" not in self.params.get("opts", ()):
            return set()
        gone = set(e[1] for e in log if e[0] == "letgo")
        return set(e[3] for e in log if e[0] == "emit") - gone

    def node_name(self):
        return self.params["site"]

    # ---- reference model over a log prefix ---------------------------------------------
    def model(self, log):
        """returns (held: dict e -> number of legitimate holders inside N,
                    pending: set of e in an output whose consumer is unfinished,
                    failed: set of e whose processing raised)"""
        name = self.params.get("model") or self.node_name()
        arg = self.params.get("arg")
        emitted = []
        since_delivery = []       # arrivals since the last hand-off to the consumer
        delivered = set()
        open_batches = []
        failed = set()
        collected = []
        by_src = {"a": [], "b": []}
        ntup = 0
        for e in log:
            k = e[0]
            if k == "emit":
                emitted.append(e[3])
                since_delivery.append(e[3])
                collected.append(e[3])
                if e[1] in by_src:
                    by_src[e[1]].append(e[3])
            elif k in ("in", "out") and e[1] == "S2":
                # a second asynchronous consumer behind N: only its unfinished awaitables matter
                if k == "in":
                    open_batches.append(("S2", e[3]))
                elif ("S2", e[3]) in open_batches:
                    open_batches.remove(("S2", e[3]))
            elif k in ("in", "out") and e[1] != "S":
                continue        # a side branch (fan-out scenarios): not the consumer behind N
            elif k == "in":
                for x in flat(e[3]):
                    delivered.add(x)
                open_batches.append(("S", e[3]))
                since_delivery = []
                ntup += 1
            elif k == "out":
                if ("S", e[3]) in open_batches:
                    open_batches.remove(("S", e[3]))
            elif k == "gate-failed":
                for x in flat(e[3]):
                    failed.add(x)
                lab = e[1].split(":")[0]
                if (lab, e[3]) in open_batches:
                    open_batches.remove((lab, e[3]))
            elif k == "flush":
                collected = []
        pending = set(x for _, b in open_batches for x in flat(b))
        held = {}
        if name in ("direct", "map", "flatten2"):
            pass
        elif name in ("buffer", "delay", "rate_limit", "map_async", "timed_window", "partition", "lossless"):
            for x in emitted:
                if x not in delivered and x not in failed:
                    held[x] = 1
        elif name in ("timed_window_unique", "partition_unique"):
            keyf = parity if arg[0] == "parity" else (lambda v: v)      # (failkey: identity for the elements that get in)
            out = {}
            if arg[1] == "first":
                for x in since_delivery:
                    out.setdefault(keyf(x), x)
            else:
                for x in since_delivery:
                    out.pop(keyf(x), None)
                    out[keyf(x)] = x
            for x in out.values():
                held[x] = 1
        elif name == "latest":
            if emitted and emitted[-1] not in delivered:
                held[emitted[-1]] = 1
        elif name == "sliding_window":
            n = arg[0]
            if n > 1:
                for x in emitted[-(n - 1):]:
                    held[x] = 1
        elif name == "zip":
            for s in ("a", "b"):
                for x in by_src[s][ntup:]:
                    held[x] = 1
        elif name == "combine_latest":
            for s in ("a", "b"):
                if by_src[s]:
                    held[by_src[s][-1]] = 1
        elif name == "zip_latest":
            if by_src["b"]:
                held[by_src["b"][-1]] = 1         # the latest value of the non-lossless input
            else:
                for x in by_src["a"]:
                    held[x] = 1
        elif name == "collect":
            for x in collected:
                held[x] = 1
        else:
            raise KeyError(name)
        return held, pending, failed

    # ---- oracles ---------------------------------------------------------------------
    def ref_check(self, final=False):
        mode = self.params["prop"]
        site = self.node_name()
        log = self.log
        start = getattr(self, "_seen", 0)
        self._seen = len(log)
        out = []
        if mode == "C04":
            for i in range(start, len(log)):
                e = log[i]
                if e[0] != "rc0":
                    continue
                held, pending, failed = self.model(log[:i])
                x = e[1]
                if x in failed:
                    out.append(Violation("callback-after-failure", site, "", dict(element=x, log=_short(log[:i + 1]))))
                elif held.get(x):
                    out.append(Violation("callback-while-held", site, "inside", dict(element=x, log=_short(log[:i + 1]))))
                elif x in pending:
                    out.append(Violation("callback-while-held", site, "sink-pending", dict(element=x, log=_short(log[:i + 1]))))
                elif x in self.emitter_holds(log[:i]):
                    out.append(Violation("callback-while-held", site, "emitter", dict(element=x, log=_short(log[:i + 1]))))
            return out
        # ---- C05 ----
        zero = getattr(self, "_zero", None)
        if zero is None:
            zero = self._zero = set()
        for i in range(start, len(log)):
            e = log[i]
            if e[0] == "rc":
                if e[3] < 0:
                    out.append(Violation("negative", site, "", dict(element=e[1], log=_short(log[:i + 1]))))
                if e[3] > 0 and e[1] in zero:
                    out.append(Violation("rise-after-zero", site, "", dict(element=e[1], log=_short(log[:i + 1]))))
            elif e[0] == "rc0":
                zero.add(e[1])
        quiet = not self.loop.has_ready() and not self.loop.due() and not self.pending_gates()
        if quiet or final:
            held, pending, failed = self.model(log)
            for x, rc in self.rcs.items():
                if x in failed:
                    continue
                want = held.get(x, 0) + (1 if x in self.emitter_holds(log) else 0)
                if rc.count != want:
                    det = "leak" if rc.count > want else "under-count"
                    if site == "latest" and det == "leak":
                        # separate the recorded finding (the element delivered last stays retained until
                        # another one replaces it) from any other leak in the same node
                        det = "delivered-kept-until-replaced" if x in delivered_set(log) else "leak-never-delivered"
                    out.append(Violation("count!=holders", site, det, dict(element=x, count=rc.count, holders=want, log=_short(log))))
            if final:
                for x, rc in self.rcs.items():
                    if x in failed or held.get(x, 0) or x in self.emitter_holds(log):
                        continue
                    ncb = sum(1 for e in log if e[0] == "cb" and e[1] == x)
                    if ncb == 0:
                        det = ""
                        if site == "latest":
                            det = "delivered-kept-until-replaced" if x in delivered_set(log) else "never-delivered"
                        out.append(Violation("callback-missing", site, det, dict(element=x, count=rc.count)))
                    elif ncb > 1:
                        out.append(Violation("callback-twice", site, "", dict(element=x, callbacks=ncb)))
        return out


def delivered_set(log):
    return set(x for e in log if e[0] == "in" and e[1] == "S" for x in flat(e[3]))


def _short(log):
    return [tuple(e[:1]) + tuple(e[1:2]) + tuple(e[3:5]) for e in log if e[0] in ("emit", "in", "out", "rc0", "cb", "gate-failed", "f-in", "f-out", "flush", "letgo")][-14:]


class _GateFailures:
    """log which batch a failed consumer gate was handling"""

    def events(self):
        evs = []
        for p in self.producers:
            if p.enabled():
                evs.append(("emit(%s)" % p.name, p.emit_next))
        for g in self.pending_gates():
            evs.append(("done(%s)" % g.label, lambda g=g: g.resolve(self.loop)))
            if self.params.get("fail"):
                evs.append(("fail(%s)" % g.label, lambda g=g: self._fail(g)))
        return evs + self.extra_events()

    def _fail(self, g):
        self.log.append(("gate-failed", g.label, self.loop.time(), g.payload))
        g.resolve(self.loop, Injected(g.label))

    def gate(self, label):
        g = super().gate(label)
        g.payload = None
        return g

    def make_sink_fn(self, kind, name):
        inner = super().make_sink_fn(kind, name)
        scen = self

        def f(x):
            n = len(scen.gates)
            r = inner(x)
            for g in scen.gates[n:]:
                g.payload = _fz(x)
            return r
        return f


def _fz(x):
    from ..sched import _freeze
    return _freeze(x)


class RefChain(_GateFailures, RefMixin, PipeScenario):
    close_intervals = 10.0

    def __init__(self, **p):
        super().__init__(**p)
        self.rcs = {}
        spec = p["nodes"][0] if p["nodes"] else "direct"
        name, a = parse(spec)
        self.params["site"] = name
        self.params["arg"] = a[1:] if name in ("timed_window_unique", "partition_unique") else a
        if len(p["nodes"]) > 1:
            # a chain of lossless buffering nodes: held (somewhere inside) until handed to the consumer
            self.params["site"] = "+".join(parse(x)[0] for x in p["nodes"])
            self.params["model"] = "lossless"
        self.horizon = 2.0 if needs_clock(p["nodes"]) else 0.0
        if needs_clock(p["nodes"]) and "slow" in p.get("opts", ()):
            # time may pass while the consumer is busy (a consumer slower than the node's interval)
            self.params["marks"] = (0.5, 1.0, 1.5, 2.0)

    def site(self):
        return self.params["site"]

    def build_node(self, up, spec):
        if spec == "direct":
            return up
        name, a = parse(spec)
        if name == "map_async":
            scen = self

            async def f(x):
                g = scen.gate("f:%r" % (x,))
                g.payload = _fz(x)
                scen.log.append(("f-in", "f", scen.loop.time(), _fz(x)))
                await g.fut
                scen.log.append(("f-out", "f", scen.loop.time(), _fz(x)))
                return x
            return up.map_async(f, parallelism=a[0])
        return super().build_node(up, spec)

    def build(self):
        if self.params.get("fan"):
            # fan-out at the entry point: a synchronous side branch attached *first*
            from streamz import Stream
            p = self.params
            self.src = Stream(asynchronous=True, loop=self.ioloop)
            if "dead" in p.get("opts", ()):
                self.side = self.src.map(lambda x: x)        # a node nobody consumes from (used for its side effect)
            else:
                self.side = self.src.sink(self.make_sink_fn("sync", "F"))
            node = self.src
            self.nodes = []
            for spec in p["nodes"]:
                node = self.build_node(node, spec)
                self.nodes.append(node)
            self.last = node
            self.attach_sink(node)
            self.make_producers()
            if p.get("marks"):
                self.clock_marks(p["marks"])
            return
        super().build()

    def make_producers(self):
        p = self.params
        items = p.get("items") or list(range(1, p["n"] + 1))
        self.add_producer("p", self.src, items, mode=p["mode"], metadata=self.md)

    def attach_sink(self, node):
        super().attach_sink(node)
        if "fan2" in self.params.get("opts", ()):
            self.sink2 = node.sink(self.make_sink_fn("future", "S2"))

    def _letgo(self, x):
        self.log.append(("letgo", x, self.loop.time()))
        self.rcs[x].release()

    def extra_events(self):
        if "init1" in self.params.get("opts", ()):
            held = sorted(self.emitter_holds(self.log))
            if held:
                return [("letgo(%r)" % held[0], lambda x=held[0]: self._letgo(x))]
        if self.params["site"] == "collect" and len(self.log) and any(e[0] == "emit" for e in self.log) \
                and sum(1 for e in self.log if e[0] == "flush") < 2:
            return [("flush", self._flush)]
        return []

    def _flush(self):
        self.log.append(("flush", "collect", self.loop.time(), None))
        self.collect.flush()

    def closing_events(self):
        ev = super().closing_events()
        if ev is None and "init1" in self.params.get("opts", ()):
            xs = self.extra_events()
            return xs[0] if xs else None
        return ev

    def check_step(self):
        return self.ref_check()

    def check_final(self):
        return self.ref_check(final=True)

    def expected_background(self, err):
        if super().expected_background(err):
            return True
        # a consumer failure injected behind a forwarding coroutine surfaces in the loop handler
        return self.params.get("fail") and "Injected" in (err[1] + err[2])


class RefThreaded(ThreadedMixin, RefChain):
    """blocking emit from a real thread (baton) with counters on the elements"""

    def build(self):
        from streamz import Stream
        p = self.params
        self.setup_threads()
        self.src = Stream(asynchronous=False)
        node = self.src
        self.nodes = []
        for spec in p["nodes"]:
            node = self.build_node(node, spec)
            self.nodes.append(node)
        self.last = node
        self.attach_sink(node)
        self.add_emitter("p", self.src, list(range(1, p["n"] + 1)), metadata=self.md)

    def finish(self):
        self.teardown_threads()

    def extra_events(self):
        return self.thread_events()

    def closing_events(self):
        ev = self.thread_events()
        return ev[0] if ev else None

    def on_emit_done(self, *a):
        pass

    def on_emit_raised(self, emitter, i, x, e):
        self.violations.append(Violation("emit-raised", self.site(), type(e).__name__, str(e)[:200]))


class RefJoin(_GateFailures, RefMixin, JoinScenario):
    close_intervals = 4.0
    horizon = 0.0

    def __init__(self, **p):
        super().__init__(**p)
        self.rcs = {}
        self.params["site"] = parse(p["join"])[0]
        self.params["arg"] = parse(p["join"])[1]

    def site(self):
        return self.params["site"]

    def add_producer(self, name, stream, items, mode="await", metadata=None):
        return super().add_producer(name, stream, items, mode=mode, metadata=self.md)

    def check_step(self):
        return self.ref_check()

    def check_final(self):
        return self.ref_check(final=True)

    def expected_background(self, err):
        if super().expected_background(err):
            return True
        return self.params.get("fail") and "Injected" in (err[1] + err[2])


def factory(key):
    prop = key[0]
    if key[1] == "chain":
        _, _, node, kind, mode, n, fail = key[:7]
        items = key[7] if len(key) > 7 and isinstance(key[7], tuple) else None
        opts = tuple(key[7].split("+")) if (len(key) > 7 and isinstance(key[7], str)) else ()
        fan = 1 if ("fan" in opts or "dead" in opts) else 0
        if "threaded" in opts:
            return lambda: RefThreaded(prop=prop, nodes=tuple(node.split(",")), kind=kind, mode=mode, n=n, fail=0, opts=opts)
        return lambda: RefChain(prop=prop, nodes=tuple(node.split(",")), kind=kind, mode=mode, n=n, fail=fail,
                                items=list(items) if items else None, fan=fan, opts=opts)
    _, _, join, kind, mode, n, fail = key
    return lambda: RefJoin(prop=prop, join=join, left="", right="", kind=kind, mode=mode, n=n, fail=fail)


ASYNC_NODES = ["buffer:1", "buffer:2", "delay:1", "rate_limit:1", "map_async:1", "map_async:2", "timed_window:1",
               "partition:2:1", "partition:2", "latest"]
UNIQUE_NODES = ["timed_window_unique:1:parity:first", "timed_window_unique:1:parity:last",
                "partition_unique:2:parity:first", "partition_unique:2:parity:last"]
PLAIN = ["direct", "map", "sliding_window:2", "collect"]
JOINS = ["zip:2", "combine_latest", "zip_latest"]


def plan(ctx, prop="C04"):
    jobs = []
    T = ctx.thorough
    kinds = ("future", "native") if T else ("future",)
    for node in ASYNC_NODES:
        heavy = node.startswith(("timed_window", "partition:2:1", "delay", "rate_limit"))
        for kind in kinds:
            jobs.append(((prop, "chain", node, kind, "await", 3, 0), (1 if heavy else 2) if T else (0 if heavy else 1)))
            jobs.append(((prop, "chain", node, kind, "burst", 3, 0), 1 if (T or not heavy) else 0))
        if prop == "C04":
            jobs.append(((prop, "chain", node, "future", "await", 2, 1), 1 if T else 0))
    for node in UNIQUE_NODES:
        jobs.append(((prop, "chain", node, "future", "burst", 3, 0, (1, 3, 2)), 1 if T else 0))
        jobs.append(((prop, "chain", node, "future", "burst", 3, 0, (1, 2, 5)), 1))
        if T:
            jobs.append(((prop, "chain", node, "future", "burst", 4, 0, (1, 3, 2, 4)), 0))
    # partition with key=: one key's group fills while another key's group is still waiting
    for node in ("partition:2:0:parity", "partition:2:1:parity"):
        for kind in ("future", "sync"):
            jobs.append(((prop, "chain", node, kind, "burst", 3, 0, (1, 2, 3)), 1))
            jobs.append(((prop, "chain", node, kind, "await", 4, 0, (1, 2, 4, 3)), 1 if T else 0))
    for node in PLAIN:
        jobs.append(((prop, "chain", node, "future", "await", 3, 0), 1))
        if prop == "C04":
            jobs.append(((prop, "chain", node, "future", "await", 2, 1), 1))
    for j in JOINS:
        jobs.append(((prop, "join", j, "future", "await", 2, 0), 1))
    if prop == "C04":
        # two lossless buffering nodes in series (thorough: all ordered pairs)
        LL = ["buffer:1", "delay:1", "rate_limit:1", "map_async:1", "partition:2:1", "timed_window:1"]
        pairs = [(a, b) for a in LL for b in LL] if T else [("buffer:1", "map_async:1"), ("map_async:1", "buffer:1"), ("buffer:1", "rate_limit:1"),
                                                             ("timed_window:1", "buffer:1"), ("partition:2:1", "map_async:1"), ("delay:1", "buffer:1")]
        for a, b in pairs:
            jobs.append(((prop, "chain", a + "," + b, "future", "await", 2, 1), 0))
    # fan-out at the entry point: synchronous branch first, then the holding node / slow consumer
    for node in ("direct", "map", "buffer:1", "delay:1", "partition:2", "latest", "sliding_window:2", "map_async:1"):
        jobs.append(((prop, "chain", node, "future", "await", 2, 1 if prop == "C04" else 0, "fan"), 1 if node not in ("delay:1",) else 0))
    # metadata made of two dictionaries, only one of which carries a counter (both orders)
    for node in ("direct", "map", "buffer:1", "sliding_window:2", "map_async:1", "partition:2"):
        for o in ("mix1", "mix2"):
            jobs.append(((prop, "chain", node, "future", "await", 2, 0, o), 1))
    # two asynchronous consumers behind the node: the emit awaitable / the release covers both
    for node in ("direct", "map", "buffer:1", "map_async:1", "sliding_window:2"):
        jobs.append(((prop, "chain", node, "future", "await", 2, 0, "fan2"), 1))
    # consumers that return native coroutine objects / nothing at all (synchronous consumer behind a forwarding node)
    for node in ("direct", "map", "buffer:1", "map_async:1"):
        if not T:
            jobs.append(((prop, "chain", node, "native", "await", 2, 0), 1))
        if node != "direct":
            jobs.append(((prop, "chain", node, "sync", "await", 2, 0), 1))
    # synchronous consumers behind the timing nodes; a consumer that is busy with one piece and done with the next
    for node in ("timed_window:1", "delay:1", "rate_limit:1", "timed_window_unique:1:parity:last", "partition:2:1", "latest"):
        jobs.append(((prop, "chain", node, "sync", "burst", 3, 0), 1 if T else 0))
    for node in ("flatten2", "direct", "map", "sliding_window:2"):
        jobs.append(((prop, "chain", node, "alt", "await", 2, 0), 1))
    # a consumer slower than the interval of the timing node in front of it
    for node in ("delay:1", "rate_limit:1", "timed_window:1", "partition:2:1"):
        jobs.append(((prop, "chain", node, "future", "await", 2, 0, "slow"), 0))
    # a node nobody consumes from, next to the pipeline
    for node in ("direct", "buffer:1"):
        jobs.append(((prop, "chain", node, "future", "await", 2, 0, "dead"), 1))
    # blocking emit from a thread with counters on the elements
    for node in ("direct", "map", "buffer:1"):
        jobs.append(((prop, "chain", node, "future", "await", 2, 0, "threaded"), 1))
    # a consumer whose awaitable is already complete when it is handed back
    for node in ("direct", "map", "buffer:1", "map_async:1", "sliding_window:2", "partition:2"):
        jobs.append(((prop, "chain", node, "done", "await", 3, 0), 1))
    # counters created with initial=1: the caller's own hold, let go at any moment
    for node in ("direct", "map", "buffer:1", "sliding_window:2"):
        jobs.append(((prop, "chain", node, "future", "await", 2, 0, "init1"), 1))
    return jobs


def check(ctx, prop="C04"):
    jobs = plan(ctx, prop)
    if getattr(ctx, "only", None):
        jobs = [j for j in jobs if ctx.only in spar._kstr(j[0])]
    res = spar.run_scenarios(ctx, MOD, jobs, cap=600000 if ctx.thorough else 80000)
    return spar.report_from(
        ctx, MOD, res, bounds=sorted(set(b for _, b in jobs)),
        rule="every schedule of emits (elements carrying instrumented reference counters), loop iterations, consumer / mapped-function "
             "completions and failures, timers, with <= d deviations, for each node that can hold data; distinct = distinct final observation logs",
        assumptions=["virtual event loop; callbacks take zero time",
                     "holder reference model is computed from the observation log (arrivals, hand-offs, completions), not from node internals"])


def replay(ctx, rep):
    x = spar.replay_finding(MOD, rep)
    for v in x.violations:
        print("  replayed:", v)
    return not x.violations
