"""C14 — latest delivers an in-order subsequence ending with the newest element.

Engine S.  src -> [map] -> latest -> sink(kind); 1-2 bursting producers; every
interleaving of arrivals, loop iterations and consumer completions with <= d
deviations.
"""
from ..sched import Scenario, Violation
from .. import spar

MOD = __name__


class LatestScenario(Scenario):
    horizon = 0.0
    close_intervals = 1.0

    def build(self):
        from streamz import Stream
        p = self.params
        self.src = Stream(asynchronous=True, loop=self.ioloop)
        node = self.src
        if p["pre"] == "map":
            node = node.map(lambda x: x)
        if p["nprod"] == 2:
            self.src2 = Stream(asynchronous=True, loop=self.ioloop)
            node = node.union(self.src2)
        self.node = node.latest()
        inner = self.make_sink_fn(p["kind"], "S")
        if p.get("idle") == 2:
            # the consumer itself pushes one more element into the source while it is being handed its first one
            scen = self
            fed = []

            def feeding(x):
                r = inner(x)
                if not fed:
                    fed.append(1)
                    scen.log.append(("emit", "p", scen.loop.time(), "fed-back"))
                    scen.src.emit("fed-back")
                return r
            self.sink = self.node.sink(feeding)
        else:
            self.sink = self.node.sink(inner)
        n = p["n"]
        items = p.get("items")
        if p.get("idle") == 1:
            # a long quiet period before / between arrivals
            self.horizon = 12.0
            self.clock_marks((11.0,))
        if items is not None:
            # values that compare equal but are told apart by type (1, 1.0, True), and None as an element
            self.add_producer("p", self.src, list(items), mode="burst")
        elif p["nprod"] == 3:
            # a second, independent latest() pipeline in the same process
            self.srcB = Stream(asynchronous=True, loop=self.ioloop)
            self.nodeB = self.srcB.latest()
            self.sinkB = self.nodeB.sink(self.make_sink_fn("sync", "T"))
            self.add_producer("p", self.src, list(range(n)), mode="burst")
            self.add_producer("q", self.srcB, [100, 101], mode="burst")
        elif p["nprod"] == 1:
            self.add_producer("p", self.src, list(range(n)), mode="burst")
        else:
            self.add_producer("p", self.src, [10 + i for i in range(n - 1)], mode="burst")
            self.add_producer("q", self.src2, [20], mode="burst")

    def site(self):
        return "latest"

    def _arrivals(self):
        return [repr(e[3]) for e in self.log if e[0] == "emit" and (self.params["nprod"] != 3 or e[1] == "p")]

    def _delivered(self):
        return [repr(e[3]) for e in self.log if e[0] == "in" and e[1] == "S"]

    def check_step(self):
        arr = self._arrivals()
        dl = self._delivered()
        # delivered is a subsequence of the arrivals (matched left to right; the same value, even the same object,
        # may arrive more than once), and no arrival is delivered twice
        start = 0
        for x in dl:
            try:
                i = arr.index(x, start)
            except ValueError:
                clause = "duplicate" if x in arr[:start] else "not-subsequence"
                return Violation(clause, "latest", "", dict(arrivals=arr, delivered=dl))
            start = i + 1
        # a delivery cannot precede the arrival it delivers: at most as many deliveries of a value as arrivals so far
        seen = {}
        for e in self.log:
            if e[0] == "emit" and (self.params["nprod"] != 3 or e[1] == "p"):
                seen[repr(e[3])] = seen.get(repr(e[3]), 0) + 1
            elif e[0] == "in" and e[1] == "S":
                seen[repr(e[3])] = seen.get(repr(e[3]), 0) - 1
                if seen[repr(e[3])] < 0:
                    return Violation("duplicate", "latest", "", dict(arrivals=arr, delivered=dl))
        return None

    def check_final(self):
        if self.params["nprod"] == 3:
            arrB = [e[3] for e in self.log if e[0] == "emit" and e[1] == "q"]
            dlB = [e[3] for e in self.log if e[0] == "in" and e[1] == "T"]
            if any(x not in arrB for x in dlB) or (arrB and (not dlB or dlB[-1] != arrB[-1])) or len(set(dlB)) != len(dlB):
                return Violation("not-subsequence", "latest", "second-pipeline", dict(arrivals=arrB, delivered=dlB))
        arr = self._arrivals()
        dl = self._delivered()
        last_emit = max([i for i, e in enumerate(self.log) if e[0] == "emit" and (self.params["nprod"] != 3 or e[1] == "p")], default=-1)
        last_in = max([i for i, e in enumerate(self.log) if e[0] == "in" and e[1] == "S"], default=-1)
        if arr and (not dl or dl[-1] != arr[-1] or last_in < last_emit):
            # (the newest arrival's delivery comes after that arrival: an equal element delivered earlier does not count)
            # was the consumer busy when the newest element arrived?
            busy = False
            opened = 0
            for e in self.log:
                if e[0] == "in" and e[1] == "S":
                    opened += 1
                elif e[0] == "out" and e[1] == "S":
                    opened -= 1
                elif e[0] == "emit" and repr(e[3]) == arr[-1]:
                    busy = opened > 0
            return Violation("newest-not-delivered", "latest",
                             "arrival-while-busy" if busy else "arrival-while-idle",
                             dict(arrivals=arr, delivered=dl))
        done = [repr(e[3]) for e in self.log if e[0] == "out" and e[1] == "S"]
        if self.params["kind"] != "sync" and done != dl:
            return Violation("consumer-not-finished", "latest", "", dict(delivered=dl, finished=done))
        return None


def factory(key):
    kind, pre, nprod, n = key[:4]
    items = key[4] if len(key) > 4 else None
    idle = key[5] if len(key) > 5 else 0
    return lambda: LatestScenario(kind=kind, pre=pre, nprod=nprod, n=n, items=items, idle=idle)


def plan(ctx):
    jobs = []
    if ctx.thorough:
        for kind in ("future", "native", "gen", "sync"):
            for pre in ("none", "map"):
                jobs.append(((kind, pre, 1, 5), 3))
                jobs.append(((kind, pre, 2, 4), 3))
            jobs.append(((kind, "none", 3, 3), 2))
    else:
        for kind in ("future", "native", "gen", "sync"):
            jobs.append(((kind, "none", 1, 4), 2))
            jobs.append(((kind, "map", 2, 3), 2))
        jobs.append((("future", "none", 3, 3), 1))
        jobs.append((("native", "none", 3, 2), 2))
    d = 3 if ctx.thorough else 2
    for kind in ("future", "sync", "native"):
        jobs.append(((kind, "none", 1, 3, (1, 1.0, True)), d))            # equal values in a row
        jobs.append(((kind, "none", 1, 3, (0, None, 0.0)), d))            # None (and falsy values) are elements
        jobs.append(((kind, "map", 1, 4, (None, 1, 1.0, True)), d - 1))
    for kind in ("future", "native"):
        jobs.append(((kind, "none", 1, 3, (7, 7, 8)), d))                  # the very same object arriving again
        jobs.append(((kind, "none", 1, 3, ("tok", "tok", "tok")), d))
    jobs.append((("future", "none", 1, 7), 1))                             # many overwrites within one busy period
    jobs.append((("native", "none", 1, 6), 1))
    jobs.append((("future", "none", 1, 2, None, 1), 2))                    # arrivals around a long idle period
    jobs.append((("sync", "none", 1, 3, (1, 1.0, None), 1), 2))
    for kind in ("sync", "future"):
        jobs.append(((kind, "none", 1, 1, None, 2), 2))                    # feedback from the consumer, nothing after it
        jobs.append(((kind, "none", 1, 2, None, 2), 2))
    return jobs


def check(ctx):
    jobs = plan(ctx)
    res = spar.run_scenarios(ctx, MOD, jobs)
    return spar.report_from(
        ctx, MOD, res, bounds=sorted(set(b for _, b in jobs)),
        rule="every schedule (emit / loop iteration / consumer completion) with <= d deviations; "
             "distinct = distinct final observation logs of non-violating executions",
        assumptions=["virtual event loop: callbacks take zero time; consumer completion is a harness-resolved future"])


def replay(ctx, rep):
    x = spar.replay_finding(MOD, rep)
    for v in x.violations:
        print("  replayed:", v)
    return not x.violations
