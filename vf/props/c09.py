"""C09 — Kafka batches: gap-free offsets, commit after processing, at-least-once.

Engine S + fake broker + crash enumeration.  from_kafka_batched runs on the virtual loop
against an in-memory confluent_kafka; events: produce(partition), add_partition, tick,
done(consumer gate) in any order, and **crash** at every choice point (everything still
scheduled in the first life is discarded); a second life with the same group id and a
synchronous consumer then runs to quiescence on the same broker.
"""
from ..sched import Scenario, Violation
from ..fakes import kafka as fk
from .. import spar

MOD = __name__
POLL = 1.0
GROUP = "g"


def _val(p, off):
    return b"p%d-%d" % (p, off)


def _parse(v):
    s = v.decode()
    p, off = s[1:].split("-")
    return int(p), int(off)


class Kafka(Scenario):
    close_intervals = 4.0
    free_events = ("crash",)

    def __init__(self, **p):
        super().__init__(**p)
        self.horizon = p.get("horizon", 2.0)
        self.crashed = False
        self.plan = list(p["plan"])
        self.life = 1
        self.first_poll_high = {}
        self.flaky_sleeps = 0

    def site(self):
        return "from_kafka_batched/" + self.params["consumer"]

    def build(self):
        from streamz import Stream
        p = self.params
        self.broker = fk.Broker("t", p["nparts"])
        self.broker.clock = self.loop.time
        self.opts = opts = tuple(p.get("opts", ()))
        self.broker.keyed = "keys" in opts
        if "cfail" in opts:
            self.broker.fail_committed = 1
        if "wm0" in opts:
            self.broker.fail_watermark = (0,)
        self.broker.flaky = "flaky" in opts
        if "low3" in opts:
            self.broker.low = {0: 3}        # the first three messages of partition 0 have expired
        if "sentinel" in opts:
            # (used by C19) the process-wide background loop is replaced by a stand-in that reports every use: an
            # asynchronous pipeline bound to the caller's loop must never touch it
            import streamz.core as sc
            scen = self

            class Shared:
                asyncio_loop = scen.loop

                def add_callback(self, cb, *a, **k):
                    scen.violations.append(Violation("callback-on-foreign-loop", "from_kafka_batched", "asynchronous-true",
                                                     dict(scheduled_on="background", component_loop="current", callback=repr(cb)[:80])))
                    return scen.ioloop.add_callback(cb, *a, **k)

                def __getattr__(self, k):
                    return getattr(scen.ioloop, k)
            sc._io_loops[:] = [Shared()]
        fk.install(self.broker)
        self._install_clock()
        for part, off in p.get("committed", ()):
            self.broker.committed[(GROUP, part)] = off
        for part in p.get("pre", ()):
            self.broker.produce(part, _val(part, len(self.broker.parts[part])))
        self.present_at_start = dict((i, len(x)) for i, x in enumerate(self.broker.parts))
        self.src = self._source()
        kind = p["consumer"]
        if kind == "sync":
            self.src.sink(self.make_sink_fn("sync", "S"))
        elif kind == "buffer":
            self.src.buffer(3).sink(self.make_sink_fn("future", "S"))
        elif kind == "direct":
            self.src.sink(self.make_sink_fn("future", "S"))
        elif kind == "native":
            self.src.sink(self.make_sink_fn("native", "S"))
        else:
            raise KeyError(kind)
        self.src.start()

    def _source(self):
        from streamz import Stream
        p = self.params
        params = {"group.id": GROUP, "bootstrap.servers": "fake"}
        if p["reset"]:
            params["auto.offset.reset"] = p["reset"]
        return Stream.from_kafka_batched("t", params, poll_interval=POLL, npartitions=p["npartitions"],
                                         refresh_partitions=p["refresh"], max_batch_size=p["max_batch"],
                                         asynchronous=("blocking" not in p.get("opts", ())), loop=self.ioloop, keys="keys" in p.get("opts", ()))

    def make_sink_fn(self, kind, name):
        inner = super().make_sink_fn(kind, name)
        if "keys" not in self.params.get("opts", ()):
            return inner
        return lambda batch: inner(self._unkey(batch))

    def _unkey(self, batch):
        """keys=True delivers {'key':..., 'value':...}: check the key, hand the values to the ordinary oracle"""
        out = []
        for m in batch:
            if not isinstance(m, dict) or set(m) != {"key", "value"}:
                self.violations.append(Violation("message-shape", self.site(), "keys=True", repr(m)[:80]))
                continue
            off = _parse(m["value"])[1]
            if m["key"] != (b"k" if off % 2 == 0 else None):
                self.violations.append(Violation("message-shape", self.site(), "wrong-key", repr(m)[:80]))
            out.append(m["value"])
        return tuple(out)

    def finish(self):
        fk.uninstall()
        import streamz.sources as ss
        ss.time = self._real_time_mod

    def _install_clock(self):
        """get_message_batch spin-waits with time.sleep() for an offset that is not there yet; on the
        virtual loop that would block the explorer for real, so a sleep is reported instead"""
        import streamz.sources as ss
        scen = self
        self._real_time_mod = ss.time

        class BlockingFetch(Exception):
            pass

        class T:
            @staticmethod
            def time():
                return scen.loop.time()

            @staticmethod
            def sleep(d):
                if scen.broker.flaky and scen.flaky_sleeps < 50:
                    scen.flaky_sleeps += 1      # an empty poll while data is on its way: wait and poll again
                    return
                scen.violations.append(Violation("past-watermark", scen.site(), "fetch-waits-for-offset-beyond-the-log",
                                                 dict(batches=[e[3] for e in scen.log if e[0] == "in"], produced=[len(x) for x in scen.broker.parts])))
                raise BlockingFetch("get_message_batch waits for a message that does not exist")
        ss.time = T

    def expected_background(self, err):
        return "BlockingFetch" in (err[1] + err[2]) or super().expected_background(err)

    # ---- events ------------------------------------------------------------------------
    def extra_events(self):
        if self.crashed:
            return []
        evs = []
        if self.plan:
            nxt = self.plan[0]
            evs.append(("add_partition" if nxt in ("A", "AA") else "produce(%s)" % nxt, self._produce))
        evs.append(("crash", self._crash))
        return evs

    def events(self):
        if self.crashed:
            return []
        return super().events()

    def closing_events(self):
        return None

    def _produce(self):
        nxt = self.plan.pop(0)
        if nxt in ("A", "AA"):
            for _ in nxt:          # "AA": two partitions appear between two polls
                self.broker.add_partition()
            self.log.append(("add_partition", "broker", self.loop.time(), len(self.broker.parts)))
            return
        off = len(self.broker.parts[nxt])
        self.broker.produce(nxt, _val(nxt, off))
        self.log.append(("produce", "broker", self.loop.time(), (nxt, off)))

    def _crash(self):
        """the process dies: nothing that was scheduled ever runs, pending consumers never finish"""
        self.crashed = True
        self.horizon = -1.0
        self.log.append(("crash", "proc", self.loop.time(), None))
        for h in list(self.loop._ready):
            h.cancel()
        self.loop._ready.clear()
        for h in list(self.loop._scheduled):
            h.cancel()
        self.dead_gates = self.gates
        self.gates = []
        self.src.stopped = True

    def closing_hook(self):
        if not self.crashed:
            self._crash()
        # second life: same group id, same broker, synchronous consumer
        self.life = 2
        self.committed_at_crash = dict(self.broker.committed)
        self.high_at_restart = [len(p) for p in self.broker.parts]
        src2 = self._source2()
        keyed = "keys" in self.params.get("opts", ())
        src2.sink(lambda batch: self.log.append(("in2", "S2", self.loop.time(), self._unkey(batch) if keyed else tuple(batch))))
        src2.start()
        self.src2 = src2

    def _source2(self):
        from streamz import Stream
        p = self.params
        params = {"group.id": GROUP, "bootstrap.servers": "fake"}
        if p["reset"]:
            params["auto.offset.reset"] = p["reset"]
        return Stream.from_kafka_batched("t", params, poll_interval=POLL, npartitions=None,
                                         refresh_partitions=p["refresh"], max_batch_size=p["max_batch"],
                                         asynchronous=("blocking" not in p.get("opts", ())), loop=self.ioloop, keys="keys" in p.get("opts", ()))

    # ---- oracle -----------------------------------------------------------------------
    def check_step(self):
        return self._check(False)

    def check_final(self):
        return self._check(True)

    def _check(self, final):
        p = self.params
        site = self.site()
        log = self.log
        for c in self.broker.log:
            if c[0] == "consumer" and str(c[2]).lower() != "false":
                return Violation("auto-commit-on", site, "", c)
        # batches of life 1, in emission order
        batches = [e for e in log if e[0] == "in"]
        done = [e[3] for e in log if e[0] == "out"]
        pos = {}
        info = dict(batches=[e[3] for e in batches], commits=[c for c in self.broker.log if c[0] == "commit"],
                    committed_before=p.get("committed", ()), produced=[len(x) for x in self.broker.parts])
        for e in batches:
            offs = [_parse(v) for v in e[3]]
            if not offs:
                return Violation("empty-batch", site, "", info)
            part = offs[0][0]
            if any(q != part for q, _ in offs):
                return Violation("mixed-partitions", site, "", info)
            lo, hi = offs[0][1], offs[-1][1]
            if [o for _, o in offs] != list(range(lo, hi + 1)):
                return Violation("range-gap", site, "inside-batch", info)
            if hi - lo + 1 > p["max_batch"]:
                return Violation("batch>max", site, "", info)
            if hi >= len(self.broker.parts[part]):
                return Violation("past-watermark", site, "", info)
            if part in pos:
                if lo > pos[part]:
                    return Violation("range-gap", site, "", info)
                if lo < pos[part]:
                    return Violation("range-overlap", site, "", info)
            else:
                start = self._start_position(part, e[2])
                if start is not None:
                    start = max(start, self.broker.low.get(part, 0))
                if start is not None and lo != start:
                    return Violation("range-start", site, "", dict(info, partition=part, expected_start=start, got=lo))
                if start is None and lo < self.present_at_start.get(part, 0):
                    # reset=latest, no committed offset: nothing that was already there may be delivered
                    return Violation("range-start", site, "latest-delivers-old-messages",
                                     dict(info, partition=part, present_at_start=self.present_at_start.get(part, 0), got=lo))
            pos[part] = hi + 1
        # commits of life 1: only for completely processed batches, offset = last + 1
        ends = {}
        for e in batches:
            offs = [_parse(v) for v in e[3]]
            ends[(offs[0][0], offs[-1][1] + 1)] = e[3]
        ncommit1 = len([c for c in self.broker.log if c[0] == "commit"]) if self.life == 1 else self.ncommit1
        if self.life == 1:
            self.ncommit1 = ncommit1
        for c in [c for c in self.broker.log if c[0] == "commit"][:ncommit1]:
            key = (c[2], c[3])
            if key not in ends:
                return Violation("commit-wrong-offset", site, "", dict(info, commit=c))
            if ends[key] not in done and p["consumer"] != "sync":
                return Violation("commit-before-complete", site, "", dict(info, commit=c))
        if not final:
            return None
        # ---- after the second life: redelivery -----------------------------------------
        complete = set()
        for b in done:
            for v in b:
                complete.add(v)
        # proviso: batches of each partition completed in order
        order_ok = True
        bypart = {}
        for e in batches:
            bypart.setdefault(_parse(e[3][0])[0], []).append(e[3])
        for part, bl in bypart.items():
            flags = [b in done for b in bl]
            if any(f2 and not f1 for f1, f2 in zip(flags, flags[1:])):
                order_ok = False
        redelivered = set(v for e in log if e[0] == "in2" for v in e[3])
        info2 = dict(info, life2=[e[3] for e in log if e[0] == "in2"], committed_at_crash=sorted(self.committed_at_crash.items()))
        # second-life ranges: contiguous from the committed offset
        pos2 = {}
        for e in log:
            if e[0] != "in2":
                continue
            offs = [_parse(v) for v in e[3]]
            if not offs:
                return Violation("empty-batch", site, "second-life", info2)
            part, lo, hi = offs[0][0], offs[0][1], offs[-1][1]
            if part in pos2 and lo != pos2[part]:
                return Violation("range-gap" if lo > pos2[part] else "range-overlap", site, "second-life", info2)
            if part not in pos2:
                c = self.committed_at_crash.get((GROUP, part))
                if c is not None and c >= 0 and lo != max(c, self.broker.low.get(part, 0)):
                    return Violation("range-start", site, "second-life", dict(info2, partition=part, committed=c, got=lo))
            pos2[part] = hi + 1
        if order_ok:
            for part, msgs in enumerate(self.broker.parts):
                if part in self.broker.fail_watermark:
                    continue        # the broker never answers for this partition: nothing can be demanded of it
                c = self.committed_at_crash.get((GROUP, part))
                known_position = (c is not None and c >= 0) or p["reset"] == "earliest"
                if not known_position:
                    continue
                if part >= (p["npartitions"] or p["nparts"]) and not p["refresh"] and part >= p["nparts"]:
                    continue
                for off, v in enumerate(msgs[: self.high_at_restart[part]]):
                    if off < self.broker.low.get(part, 0):
                        continue          # expired before anybody could read it
                    if c is not None and c >= 0 and off < c and v not in complete and self._was_emitted(v):
                        return Violation("committed-past-unprocessed", site, "", dict(info2, message=(part, off)))
                    if v not in complete and v not in redelivered and (c is None or c < 0 or off >= c):
                        return Violation("not-redelivered", site, "", dict(info2, message=(part, off)))
        return None

    def _was_emitted(self, v):
        return any(v in e[3] for e in self.log if e[0] == "in")

    def _start_position(self, part, t):
        """expected first offset of a partition in life 1, or None when it depends on
        when the source first looked (reset=latest without a committed offset)"""
        p = self.params
        c = dict(p.get("committed", ())).get(part)
        if c is not None:
            return c
        if part >= p["nparts"]:
            return 0          # partition added later: read from the beginning
        if p["reset"] == "earliest":
            return 0
        return None


def factory(key):
    consumer, max_batch, nparts, npartitions, refresh, reset, committed, pre, plan, horizon = key[:10]
    opts = tuple(key[10].split("+")) if len(key) > 10 else ()
    return lambda: Kafka(consumer=consumer, max_batch=max_batch, nparts=nparts, npartitions=npartitions, refresh=refresh,
                         reset=reset, committed=committed, pre=pre, plan=plan, horizon=horizon, opts=opts)


def plan(ctx):
    jobs = []
    T = ctx.thorough
    for consumer in ("sync", "buffer", "direct") + (("native",) if T else ()):
        for mb in (1, 2, 10):
            # two partitions, three messages
            jobs.append(((consumer, mb, 2, None, False, "earliest", (), (), (0, 0, 1), 2.0), 0 if consumer != "sync" else 1))
        jobs.append(((consumer, 2, 1, 1, False, "earliest", ((0, 1),), (0, 0), (0, 0), 2.0), 1))
        jobs.append(((consumer, 2, 1, None, False, "latest", (), (0,), (0, 0), 2.0), 0))
        jobs.append(((consumer, 2, 1, None, True, "earliest", (), (0,), (0, "A", 1), 2.0), 0))
        jobs.append(((consumer, 1, 2, 2, True, "latest", ((1, 0),), (1,), (0, 1), 2.0), 0))
        # reset=latest: a partition added later is still read from its beginning, old messages are not delivered
        jobs.append(((consumer, 2, 1, None, True, "latest", (), (0,), ("A", 1, 1), 2.0), 0))
    for consumer in ("sync", "direct"):
        # keys=True (keyed and unkeyed messages mixed); two partitions appearing at once; a transient committed() failure;
        # the reset position left to its documented default (latest); a partition whose watermark query always fails
        jobs.append(((consumer, 2, 1, None, False, "earliest", (), (0,), (0, 0), 2.0, "keys"), 0))
        jobs.append(((consumer, 2, 1, None, True, "earliest", (), (0,), ("AA", 2, 1), 2.0), 0))
        jobs.append(((consumer, 2, 1, 1, False, "earliest", ((0, 1),), (0, 0), (0,), 2.0, "cfail"), 0))
        jobs.append(((consumer, 2, 1, None, False, None, (), (0, 0), (0,), 2.0), 0))
        jobs.append(((consumer, 2, 2, None, False, "earliest", (), (1,), (0, 1), 2.0, "wm0"), 0))
        # a fetching consumer whose poll() comes back empty every other time; a log whose beginning has expired
        jobs.append(((consumer, 2, 1, None, False, "earliest", (), (0, 0, 0), (0,), 2.0, "flaky"), 0))
        jobs.append(((consumer, 10, 1, None, False, "earliest", (), (0, 0), (0, 0), 2.0, "flaky"), 0))
        jobs.append(((consumer, 2, 1, None, False, "earliest", (), (0, 0, 0, 0), (0,), 2.0, "low3"), 0))
        jobs.append(((consumer, 1, 1, 1, False, "earliest", ((0, 1),), (0, 0, 0, 0), (0,), 2.0, "low3"), 0))
        # reset=latest (explicit and by default) with a backlog in *every* partition of a multi-partition topic
        jobs.append(((consumer, 2, 2, None, False, "latest", (), (0, 1, 1), (0, 1), 2.0), 0))
        jobs.append(((consumer, 2, 3, None, False, None, (), (1, 2, 2), (2, 0), 2.0), 0))
    if T:
        # four messages / a longer horizon, deviation bound 0 (a crash is deviation-free everywhere)
        for consumer in ("sync", "buffer", "direct"):
            jobs.append(((consumer, 2, 2, None, False, "earliest", (), (), (0, 0, 1, 1), 2.0), 0))
            jobs.append(((consumer, 1, 1, None, False, "earliest", (), (), (0, 0, 0), 3.0), 0))
            jobs.append(((consumer, 2, 2, None, True, "earliest", ((0, 1),), (0, 0), (0, "A", 2, 1), 2.0), 0))
    return jobs


def check(ctx):
    jobs = plan(ctx)
    if getattr(ctx, "only", None):
        jobs = [j for j in jobs if ctx.only in spar._kstr(j[0])]
    res = spar.run_scenarios(ctx, MOD, jobs, cap=600000 if ctx.thorough else 120000)
    return spar.report_from(
        ctx, MOD, res, bounds=sorted(set(b for _, b in jobs)),
        rule="every order of produce / add_partition / tick / consumer completion events with <= d deviations, with a crash at every choice point "
             "(crash is deviation-free) followed by a restart with the same group id; distinct = distinct observation logs",
        assumptions=["trusted fake: in-memory confluent_kafka (Consumer.poll/assign/committed/commit/get_watermark_offsets/list_topics), commits are durable when requested",
                     "a crash discards every callback still scheduled and leaves pending consumers unfinished; the second life uses a synchronous consumer",
                     "redelivery is demanded only when the group has a position (committed offset or reset=earliest) and batches of a partition completed in order"])


def replay(ctx, rep):
    key = rep["scenario"]
    key = tuple(tuple(tuple(y) if isinstance(y, list) else y for y in k) if isinstance(k, list) else k for k in key)
    rep = dict(rep, scenario=key)
    x = spar.replay_finding(MOD, rep)
    for v in x.violations:
        print("  replayed:", v)
    return not x.violations
