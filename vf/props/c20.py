"""C20 — a Dask-backed pipeline is observationally equivalent to the local one.

Engine S + fake Dask client: src.scatter() -> program -> gather() -> recorder, task futures
completing only on explorer events (every completion order), producers awaiting emit.
Oracle: the recorder sequence equals that of the *same program built from local nodes* fed
the same emits in the same order (total order for one producer and for zip; per-producer
order + multiset for union of two producers); reference counters attached to the inputs end
with the same count, fire their callback as often as locally, and never earlier relative to
the recorder's deliveries than locally.  Thorough also validates the fake: every program x
input runs once on a real in-process distributed.Client and must give the same sequence.
"""
from ..sched import Scenario, Violation
from ..fakes.dask import FakeClient
from .. import spar
from ..common import Finding

MOD = __name__


def inc(x):
    return x + 1


def add(a, b):
    return a + b


def times10(x):
    return x * 10


def pair(x):
    return (x, x + 1)


def neg(x):
    return -x


def accrs(st, x):
    return (st + x, st * 10 + x)


def tsum(t):
    return sum(t)


def failon2(x):
    if x == 2:
        raise ZeroDivisionError("injected: task fails on the cluster for element 2")
    return x + 1


def addk(x, y=0, k=0):
    return x + 2 * y + 3 * k


def mktuple(x):
    """elements that are tuples (of length 1..3)"""
    return (x, x + 1, x + 2)[:x]


def accn(st, x):
    return (st or 0) + 10 * x


def failadd(st, x):
    if x == 2:
        raise ZeroDivisionError("injected: the accumulating task fails on the cluster for element 2")
    return st + x


def wrap(x):
    return (x,)


def none_on_2(x):
    return None if x == 2 else x


def mklist(x):
    """elements that are lists themselves (of length 1..3)"""
    return [x, x + 1, x + 2][:x]


def llen(v):
    return len(v)


DASK = False      # True while a program is being built on the Dask side (a second scatter after a gather)


def _again(x):
    return x.scatter() if DASK else x


def add3(a, b, c=0):
    return a + b + c


PROGS = {
    "map": lambda s: s.map(inc),
    "map.map": lambda s: s.map(inc).map(times10),
    "acc": lambda s: s.accumulate(add),
    "acc0": lambda s: s.accumulate(add, start=0),
    "accrs": lambda s: s.accumulate(accrs, start=0, returns_state=True),
    "map.acc": lambda s: s.map(inc).accumulate(add),
    "accws": lambda s: s.accumulate(add, with_state=True),
    "accws.buffer": lambda s: s.accumulate(add, with_state=True).buffer(2),
    "accws0.partition": lambda s: s.accumulate(add, start=0, with_state=True).partition(2),
    "map.buffer": lambda s: s.map(inc).buffer(2),
    "buffer.map": lambda s: s.buffer(2).map(inc),
    "map.partition": lambda s: s.map(inc).partition(2),
    "partition.map": lambda s: s.partition(2).map(tsum),
    "map.sw": lambda s: s.map(inc).sliding_window(2),
    "sw.map": lambda s: s.sliding_window(2, return_partial=False).map(tsum),
    "pair.starmap": lambda s: s.map(pair).starmap(add),
    "zipself": lambda s: s.map(inc).zip(s.map(times10)),
    "zipself.starmap": lambda s: s.map(inc).zip(s.map(times10)).starmap(add),
    # positional and keyword arguments must be forwarded like the local nodes forward them
    "map.args": lambda s: s.map(addk, 5, k=10),
    "starmap.kw": lambda s: s.map(pair).starmap(add3, c=100),
    "acc.kw": lambda s: s.accumulate(addk, start=0, k=1),
    "fanout.union": lambda s: s.map(inc).union(s.map(times10)),
    # the mapped function fails for one element: the emitter gets the error, later elements flow on
    "map.fail": lambda s: s.map(failon2),
    "map.fail.map": lambda s: s.map(failon2).map(times10),
    "acc.fail": lambda s: s.accumulate(failadd, start=0),
    # one emit delivers three elements to partition(2): the third arrives while the flush of
    # the first two is still being delivered through gather
    "fan3.union.partition": lambda s: s.map(inc).union(s.map(times10), s.map(neg)).partition(2),
    "fan3.union.sw": lambda s: s.map(inc).union(s.map(times10), s.map(neg)).sliding_window(2),
    # node arguments that are not the user function's business
    "map.name": lambda s: s.map(inc, stream_name="m"),
    "starmap.name": lambda s: s.map(pair).starmap(add, stream_name="sum"),
    "acc.name": lambda s: s.accumulate(add, start=0, stream_name="acc"),
    # two segments in a row: ... gather() scatter() ...
    "gather.scatter": lambda s: _again(s.map(inc).gather()).map(times10),
    "gather.scatter.acc": lambda s: _again(s.accumulate(add).gather()).map(inc),
    # elements that are lists (PRE: made from the emitted ints in front of scatter)
    "tuple:len": lambda s: s.map(llen),
    "tuple:id": lambda s: s,
    # None as a start value / as a result, returns_state together with with_state
    "acc.none": lambda s: s.accumulate(accn, start=None),
    "accrsws": lambda s: s.accumulate(accrs, start=0, returns_state=True, with_state=True),
    "map.none": lambda s: s.map(none_on_2),
    "map.none.map": lambda s: s.map(none_on_2).map(wrap),
    "list:len": lambda s: s.map(llen),
    "list:id": lambda s: s,
    "list:partition": lambda s: s.partition(2),
}
PRE = {"list:len": mklist, "list:id": mklist, "list:partition": mklist, "tuple:len": mktuple, "tuple:id": mktuple}
# programs whose emit must cover the (slow, asynchronous) consumer behind gather: nothing in between holds elements back
ASYNC_SINK = ("map", "map.map", "acc0", "pair.starmap", "map.none")
PROGS2 = {
    "zip": lambda a, b: a.zip(b),
    "zip.map": lambda a, b: a.zip(b).map(tsum),
    "map.zip": lambda a, b: a.map(inc).zip(b),
    "union": lambda a, b: a.union(b),
    "union.map": lambda a, b: a.union(b).map(inc),
    "zip.starmap": lambda a, b: a.zip(b).starmap(add),
}


PROGS3 = {
    # three producers, each through its own scatter, meeting in front of one gather: a third element can arrive after the
    # first has gone through while the second is still waiting for its task
    "union3": lambda a, b, c: a.map(inc).union(b.map(inc), c.map(inc)),
    "union3.map": lambda a, b, c: a.union(b, c).map(times10),
}


class _CbLoop:
    def __init__(self, log):
        self.log = log

    def add_callback(self, cb, *a):
        cb(*a)


_LOCAL = {}


def local_run(prog, emits, two):
    """looked up during executions; computed beforehand by precompute_local() outside the
    virtual-loop environment (local partition/buffer nodes need a real background loop)"""
    return _LOCAL[(prog, tuple(emits), two)]


def precompute_local(prog, two, n):
    if (prog, two, n) in _LOCAL:
        return
    if two == 3:
        import itertools
        seqs = set()
        for perm in itertools.permutations([("a", 1), ("b", 10), ("c", 100)]):
            for k in range(4):
                seqs.add(tuple(perm[:k]))
    elif two:
        a = [("a", x) for x in [1, 2][:n]]
        b = [("b", x) for x in [10, 20][:n]]

        def inter(x, y):
            if not x and not y:
                yield ()
                return
            if x:
                for r in inter(x[1:], y):
                    yield (x[0],) + r
            if y:
                for r in inter(x, y[1:]):
                    yield (y[0],) + r
        seqs = set()
        for full in inter(tuple(a), tuple(b)):
            for k in range(len(full) + 1):
                seqs.add(full[:k])
    else:
        full = tuple(("p", x) for x in range(1, n + 1))
        seqs = set(full[:k] for k in range(len(full) + 1))
    for sq in seqs:
        _LOCAL[(prog, sq, two)] = _local_run(prog, list(sq), two)
    _LOCAL[(prog, two, n)] = True


def _local_run(prog, emits, two):
    import logging
    logging.disable(logging.CRITICAL)
    try:
        return _local_run2(prog, emits, two)
    finally:
        logging.disable(logging.NOTSET)


def _local_run2(prog, emits, two):
    """the same program from local nodes, fed the same emits in the same order, synchronous.
    returns the event log [('in', v) | ('rc0', eid) | ('cb', eid)] and final counts"""
    from streamz import Stream, RefCounter
    log = []
    counts = {}
    if two == 3:
        a, b, c = Stream(), Stream(), Stream()
        out = PROGS3[prog](a, b, c)
        srcs = {"a": a, "b": b, "c": c}
    elif two:
        a, b = Stream(), Stream()
        out = PROGS2[prog](a, b)
        srcs = {"a": a, "b": b}
    else:
        s = Stream()
        out = PROGS[prog](s.map(PRE[prog]) if prog in PRE else s)
        srcs = {"p": s}
    snk = out.gather().sink(lambda v: log.append(("in", _fz(v))))
    rcs = {}

    class RC(RefCounter):
        def release(self, n=1):
            self.count -= n
            if self.count <= 0 and self.cb:
                log.append(("rc0", self.eid))

    for name, x in emits:
        rc = RC(cb=lambda: None, loop=_CbLoop(log))
        rc.eid = x
        rcs[x] = rc
        try:
            srcs[name].emit(x, metadata=[{"ref": rc}])
        except ZeroDivisionError:
            log.append(("raised", x))
    snk.destroy()
    return log, dict((x, rc.count) for x, rc in rcs.items())


def _fz(v):
    if isinstance(v, (list, tuple)):
        return tuple(_fz(y) for y in v)
    return v


class Dask(Scenario):
    close_intervals = 2.0
    horizon = 0.0

    def site(self):
        return "dask/" + self.params["prog"]

    def build(self):
        from streamz import Stream, RefCounter
        import streamz.core as sc
        import streamz.dask as sd
        p = self.params
        self.client = FakeClient(self.loop, self.ioloop)
        self._old = (sd.default_client, sc._dask_default_client)
        sd.default_client = lambda: self.client
        sc._dask_default_client = lambda: self.client
        self.rcs = {}
        scen = self

        class RC(RefCounter):
            def release(self, n=1):
                self.count -= n
                if self.count <= 0 and self.cb:
                    scen.log.append(("rc0", "rc", scen.loop.time(), self.eid))
                    self.loop.add_callback(self.cb)

        def md(x, i):
            rc = RC(cb=lambda: None, loop=scen.ioloop)
            rc.eid = x
            scen.rcs[x] = rc
            return [{"ref": rc}]
        if p["two"] == 3:
            self.a = Stream(asynchronous=True, loop=self.ioloop)
            self.b = Stream(asynchronous=True, loop=self.ioloop)
            self.c = Stream(asynchronous=True, loop=self.ioloop)
            out = PROGS3[p["prog"]](self.a.scatter(), self.b.scatter(), self.c.scatter())
            self.add_producer("a", self.a, [1], mode="await", metadata=md)
            self.add_producer("b", self.b, [10], mode="await", metadata=md)
            self.add_producer("c", self.c, [100], mode="await", metadata=md)
        elif p["two"]:
            self.a = Stream(asynchronous=True, loop=self.ioloop)
            self.b = Stream(asynchronous=True, loop=self.ioloop)
            out = PROGS2[p["prog"]](self.a.scatter(), self.b.scatter())
            self.add_producer("a", self.a, [1, 2][: p["n"]], mode="await", metadata=md)
            self.add_producer("b", self.b, [10, 20][: p["n"]], mode="await", metadata=md)
        else:
            self.src = Stream(asynchronous=True, loop=self.ioloop)
            global DASK
            DASK = True
            try:
                head = self.src.map(PRE[p["prog"]]) if p["prog"] in PRE else self.src
                out = PROGS[p["prog"]](head.scatter())
            finally:
                DASK = False
            self.add_producer("p", self.src, list(range(1, p["n"] + 1)), mode="await", metadata=md)
        out.gather().sink(self.make_sink_fn("future" if p.get("slow") else "sync", "S"))

    def finish(self):
        import streamz.core as sc
        import streamz.dask as sd
        sd.default_client, sc._dask_default_client = self._old

    def extra_events(self):
        return [("task(%d)" % t.id, lambda t=t: self.client.complete(t)) for t in self.client.runnable()]

    def closing_events(self):
        r = self.client.runnable()
        if r:
            return ("task(%d)" % r[0].id, lambda: self.client.complete(r[0]))
        return super().closing_events()

    def on_emit_done(self, producer, idx, x):
        if not self.params.get("slow"):
            return
        # the consumer behind gather is asynchronous and nothing in this program holds elements back: when the emit
        # completes, the consumer has finished with what this element produced
        ins = [e[3] for e in self.log if e[0] == "in"]
        outs = [e[3] for e in self.log if e[0] == "out"]
        if len(ins) < idx + 1 or len(outs) < len(ins):
            self.violations.append(Violation("emit-before-consumer", self.site(), "behind-gather",
                                             dict(element=x, delivered=ins, finished=outs)))

    def check_step(self):
        return self._check(False)

    def check_final(self):
        return self._check(True)

    def _check(self, final):
        p = self.params
        site = self.site()
        emits = [(e[1], e[3]) for e in self.log if e[0] == "emit"]
        llog0, _ = local_run(p["prog"], emits, p["two"])
        want_raised = [e[1] for e in llog0 if e[0] == "raised"]
        er = [e for e in self.log if e[0] == "emit-raised"]
        if [e[3] for e in er if e[3] not in want_raised]:
            return Violation("emit-raised", site, er[0][4], er)
        if final and sorted(e[3] for e in er) != sorted(want_raised):
            return Violation("not-raised", site, "", dict(raised=[e[3] for e in er], expected=want_raised))
        for c in self.client.calls:
            if c[0] == "scatter" and c[1]:
                return Violation("scatter-hash", site, "", "scatter called with hash=True: equal values would share one future/key")
        emits = [(e[1], e[3]) for e in self.log if e[0] == "emit"]
        llog, lcounts = local_run(p["prog"], emits, p["two"])
        want = [e[1] for e in llog if e[0] == "in"]
        got = [e[3] for e in self.log if e[0] == "in"]
        info = dict(emits=emits, dask=got, local=want)
        # every source has its own scatter node and the fake's RPCs complete first-in first-out, so elements reach the
        # gather in emission order and gather hands them on in arrival order: the local sequence, also across producers
        total_order = True
        if total_order:
            if got != want[:len(got)]:
                clause = "sequence" if sorted(map(repr, got)) != sorted(map(repr, want[:len(got)])) else "order"
                return Violation(clause, site, "", info)
        else:
            if any(g not in want for g in got) or len(set(map(repr, got))) != len(got) and len(set(map(repr, want))) == len(want):
                return Violation("multiset", site, "", info)
        # callbacks never earlier (relative to deliveries) than locally
        def positions(log, kin, krc, val):
            n = 0
            pos = {}
            cnt = {}
            for e in log:
                if e[0] == kin:
                    n += 1
                elif e[0] == krc:
                    x = val(e)
                    pos.setdefault(x, n)
                    cnt[x] = cnt.get(x, 0) + 1
            return pos, cnt
        lpos, lcnt = positions(llog, "in", "rc0", lambda e: e[1])
        dpos, dcnt = positions(self.log, "in", "rc0", lambda e: e[3])
        for x, n in dpos.items():
            if total_order and x in lpos and n < lpos[x]:
                return Violation("counters", site, "callback-earlier-than-local", dict(info, element=x, dask_after=n, local_after=lpos[x]))
            if x not in lpos:
                return Violation("counters", site, "callback-not-fired-locally", dict(info, element=x))
        for x, n in dcnt.items():
            if n > lcnt.get(x, 0):
                return Violation("counters", site, "callback-more-often-than-local", dict(info, element=x, dask=n, local=lcnt.get(x, 0)))
        if final:
            if total_order and got != want:
                return Violation("sequence", site, "", info)
            if not total_order:
                if sorted(map(repr, got)) != sorted(map(repr, want)):
                    return Violation("multiset", site, "", info)
                for pr in self.producers:
                    mine = [g for g in got if g in [pr_item for pr_item in self._derived(pr)]]
            pend = [pr.name for pr in self.producers if pr.inflight()]
            if pend:
                return Violation("emit-pending", site, "", dict(info, pending=pend))
            dcounts = dict((x, rc.count) for x, rc in self.rcs.items())
            for x in want_raised:
                # an element whose processing raised: never completed in either world; the exact count of
                # partial retains is not part of the statement
                if dcounts.get(x, 1) <= 0:
                    return Violation("counters", site, "failed-element-completed", dict(info, element=x))
                dcounts.pop(x, None)
            lcounts = dict((x, c) for x, c in lcounts.items() if x not in want_raised)
            if dcounts != lcounts:
                return Violation("counters", site, "final-counts", dict(info, dask=dcounts, local=lcounts))
            for x in lcnt:
                if dcnt.get(x, 0) != lcnt[x]:
                    return Violation("counters", site, "callback-count", dict(info, element=x, dask=dcnt.get(x, 0), local=lcnt[x]))
        return None

    def _derived(self, pr):
        return []


def factory(key):
    prog, two, n = key[:3]
    slow = len(key) > 3 and key[3] == "slow"
    precompute_local(prog, two, n)
    return lambda: Dask(prog=prog, two=two, n=n, slow=slow)


def plan(ctx):
    jobs = []
    T = ctx.thorough
    for prog in PROGS:
        jobs.append(((prog, False, 3), 1))
        if T:
            jobs.append(((prog, False, 4), 1 if prog not in ("map.map", "zipself.starmap") else 0))
            jobs.append(((prog, False, 3), 2))
    for prog in PROGS2:
        jobs.append(((prog, True, 2), 1))
        if T:
            jobs.append(((prog, True, 2), 2))
    for prog in ASYNC_SINK:
        jobs.append(((prog, False, 2, "slow"), 1))
    for prog in PROGS3:
        jobs.append(((prog, 3, 1), 2))
        if T:
            jobs.append(((prog, 3, 1), 3))
    return jobs


def conformance(ctx):
    """fake-vs-real: each program on a real in-process cluster must give the local sequence"""
    import asyncio
    out = []
    from distributed import Client
    from streamz import Stream
    import logging
    logging.getLogger("distributed").setLevel(logging.ERROR)

    for prog in PROGS:
        precompute_local(prog, False, 3)     # local references first: they need their own loop thread

    async def run():
        async with Client(processes=False, n_workers=1, threads_per_worker=2, dashboard_address=None, asynchronous=True) as client:
            for prog in PROGS:
                if prog == "acc.fail":
                    continue        # recorded finding (the real cluster shows the same poisoned state); not a question of the fake
                s = Stream(asynchronous=True)
                L = []
                global DASK
                DASK = True
                try:
                    PROGS[prog]((s.map(PRE[prog]) if prog in PRE else s).scatter()).gather().sink(lambda v: L.append(_fz(v)))
                finally:
                    DASK = False
                llog, _ = local_run(prog, [("p", x) for x in (1, 2, 3)], False)
                want = [e[1] for e in llog if e[0] == "in"]
                for x in (1, 2, 3):
                    try:
                        await asyncio.wait_for(s.emit(x), 60)
                    except ZeroDivisionError:
                        pass             # the programs whose task fails for one element
                # no wall-clock assumption: wait until everything expected has arrived (or a generous limit), then a
                # short grace period in which anything surplus would show up
                for _ in range(600):
                    if len(L) >= len(want):
                        break
                    await asyncio.sleep(0.05)
                await asyncio.sleep(0.2)
                out.append((prog, L, want))
    asyncio.run(run())
    return out


def check(ctx):
    jobs = plan(ctx)
    if getattr(ctx, "only", None):
        jobs = [j for j in jobs if ctx.only in spar._kstr(j[0])]
    res = spar.run_scenarios(ctx, MOD, jobs, cap=600000 if ctx.thorough else 100000)
    rep = spar.report_from(
        ctx, MOD, res, bounds=sorted(set(b for _, b in jobs)),
        rule="every order of emits (producers await emit) and task completions offered by the fake client (all dependency-respecting orders), "
             "<= d deviations; distinct = distinct observation logs",
        assumptions=["trusted fake Dask client: scatter/gather RPCs complete FIFO on the next loop turn, tasks complete only on explorer events, nested futures resolved on gather/submit",
                     "producers await each emit (documented usage)"])
    if ctx.thorough:
        # validate the fake: every one-source program once on a real in-process cluster (separate
        # process: it starts threads, which must not exist in the forking parent)
        import json
        import subprocess
        import sys
        code = ("import json,warnings;warnings.filterwarnings('ignore');from vf import bind_repo;bind_repo();"
                "from vf.props import c20;print('CONF'+json.dumps([[p,g,w] for p,g,w in c20.conformance(None)],default=list))")
        r = subprocess.run([sys.executable, "-c", code], capture_output=True, text=True, timeout=900, cwd=__import__("os").path.dirname(__import__("os").path.dirname(__import__("os").path.dirname(__file__))))
        line = [l for l in r.stdout.splitlines() if l.startswith("CONF")]
        if not line:
            rep.notes.append("fake-vs-real conformance could not run: %s" % (r.stderr[-300:],))
        else:
            res = json.loads(line[0][4:])
            bad = [x for x in res if x[1] != x[2]]
            rep.coverage["fake_vs_real_programs"] = len(res)
            rep.coverage["fake_vs_real_disagreements"] = len(bad)
            for prog, got, want in bad:
                rep.add(Finding("fake-vs-real", "dask/" + prog, "", dict(engine="conformance", program=prog, real_cluster=got, local=want),
                                "real in-process cluster gave %r, local pipeline %r" % (got, want)))
    return rep


def replay(ctx, rep):
    x = spar.replay_finding(MOD, rep)
    for v in x.violations:
        print("  replayed:", v)
    return not x.violations
