"""C11 — rolling / cumulative / expanding / ewm results do not depend on batching (engine F).

rolling(w).{sum,mean,min,max,count,std,var,median}, rolling('1ns'|'2ns' | '1s'|'2s').{sum,count,max},
cumsum/cumprod/cummin/cummax, expanding().{sum,mean,count,var,std}, ewm(com=1 | alpha=.5).mean(),
each on a streaming Series (sdf.x...) and, for a few, on a two-column frame.
Oracle: rolling / cumulative — concat(emitted) == pandas in one pass over the whole table;
expanding / ewm emit one value per batch == the one-pass value at the prefix's last row.
"""
from .. import frames as F

MOD = __name__
SPECS = {}
ROLL_OPS = ("sum", "mean", "min", "max", "count", "std", "var", "median")
TROLL_OPS = ("sum", "count", "max")
CUM_OPS = ("cumsum", "cumprod", "cummin", "cummax")
EXP_OPS = ("sum", "mean", "count", "var", "std")


def _chain(*preds):
    def f(info):
        for name, p in preds:
            if p(info):
                return name
        return None
    return f


GEN = _chain(*F.GENERIC)
CUM = _chain(("nan-at-batch-end", F.p_nan_at_batch_end), *F.GENERIC)
EWM = _chain(("empty-first-batch", F.p_empty_first_batch), ("nan-in-prefix", F.p_nan_in_prefix), *F.GENERIC)
EXPSUM = _chain(("all-nan-prefix", F.p_all_nan_prefix), *F.GENERIC)


def add(key, site, mode, f, classify=GEN, cols=("x",)):
    SPECS[key] = F.Spec(key, site, mode, f, classify=classify, cols=cols)


for w in (1, 2, 3):
    for op in ROLL_OPS:
        add("rolling(%d).%s" % (w, op), "rolling(n).%s" % op, "concat",
            lambda d, w=w, op=op: getattr(d.x.rolling(w), op)())
    add("rolling(%d).sum[frame]" % w, "rolling(n).sum", "concat",
        lambda d, w=w: d[["x", "y"]].rolling(w).sum(), cols=("x", "y"))
for w in ("1ns", "2ns", "1s", "2s"):
    for op in TROLL_OPS:
        add("rolling(%s).%s" % (w, op), "rolling(time).%s" % op, "concat",
            lambda d, w=w, op=op: getattr(d.x.rolling(w), op)())
    add("rolling(%s).sum[frame]" % w, "rolling(time).sum", "concat",
        lambda d, w=w: d[["x", "y"]].rolling(w).sum(), cols=("x", "y"))
for op in CUM_OPS:
    add(op, op, "concat", lambda d, op=op: getattr(d.x, op)(), classify=CUM)
    add(op + "[frame]", op, "concat", lambda d, op=op: getattr(d[["x", "y"]], op)(), classify=CUM, cols=("x", "y"))
for op in EXP_OPS:
    add("expanding.%s" % op, "expanding.%s" % op, "last",
        lambda d, op=op: getattr(d.x.expanding(), op)(), classify=EXPSUM if op == "sum" else GEN)
add("expanding.sum[frame]", "expanding.sum", "last", lambda d: d[["x", "y"]].expanding().sum(), classify=EXPSUM, cols=("x", "y"))
add("expanding.mean[frame]", "expanding.mean", "last", lambda d: d[["x", "y"]].expanding().mean(), cols=("x", "y"))
add("ewm(com=1).mean", "ewm.mean", "last", lambda d: d.x.ewm(com=1).mean(), classify=EWM)
add("ewm(alpha=.5).mean", "ewm.mean", "last", lambda d: d.x.ewm(alpha=0.5).mean(), classify=EWM)
add("ewm(com=1).mean[frame]", "ewm.mean", "last", lambda d: d[["x", "y"]].ewm(com=1).mean(), classify=EWM, cols=("x", "y"))

ROWS = [k for k in SPECS if not any(t in k for t in ("ns)", "s)"))]
ROWS5 = [k for k in ROWS if not k.startswith(("rolling(1)", "rolling(2)"))]
T_NS = [k for k in SPECS if "ns)" in k]
T_NS_CORE = [k for k in T_NS if "[frame]" not in k]
T_S = [k for k in SPECS if "s)" in k and "ns)" not in k]
LONG = ["rolling(3).sum", "rolling(3).count", "rolling(2).mean", "cumsum", "expanding.sum", "ewm(com=1).mean"]


def plan(ctx):
    if ctx.thorough:
        return [F.Suite(ROWS, "v", {1: 2, 2: 2, 3: 2, 4: 2}),
                F.Suite(ROWS5, "v", {5: 1}),
                F.Suite(T_NS, "v", {1: 2, 2: 2, 3: 2}, grid="ns"),
                F.Suite(T_NS_CORE, "v", {4: 1}, grid="ns"),
                F.Suite(T_S, "v", {1: 2, 2: 2, 3: 2}, grid="s"),
                F.Suite(LONG, "one", {5: 1, 6: 1, 7: 0})]
    return [F.Suite(ROWS, "v", {1: 1, 2: 1, 3: 1}),
            F.Suite(T_NS, "v", {1: 1, 2: 1}, grid="ns"),
            F.Suite(T_NS_CORE, "v", {3: 1}, grid="ns"),
            F.Suite(T_S, "v", {1: 1, 2: 1}, grid="s"),
            F.Suite(LONG, "one", {5: 0, 6: 0})]


RULE = ("every table of R rows over x in {1,2,NaN} (y = a second column with a shifted NaN pattern), every composition "
        "into consecutive batches with <= E empty batches at any position, for time-based rolling additionally every "
        "non-decreasing DatetimeIndex with increments {0,1,2} on the ns and the s grid; one fresh pipeline per "
        "(aggregation, table, split). distinct case = (family, table, time pattern, split); non-trivial = it contains "
        "an empty batch, a batch of >= 2 rows, a NaN, or a repeated key. states = distinct (aggregation, prefix rows, "
        "canonical emitted value).")
ASSUME = ["value alphabet {1.0, 2.0, NaN}; integer index 0..R-1 or DatetimeIndex from increments {0,1,2} (first row fixed: only differences are used)",
          "pandas is the reference: rolling/cumulative compared as concat(emitted) vs one pass; expanding/ewm as one value per batch vs one-pass value at the prefix's last row",
          "example frame = first row of the table (an empty example makes Series expanding().var() fail at construction)",
          "an exception while the prefix has no rows obliges nothing (counted as empty_prefix_exceptions)",
          "tolerance 1e-9, NaN == NaN, dtype-only differences ignored"]


def check(ctx):
    return F.check(ctx, MOD, plan(ctx), RULE, ASSUME,
                   notes=["ewm: a 1-row frame / 1-element series is accepted where pandas yields a row / scalar (shape of the emitted object is not part of the statement)"])


def replay(ctx, rep):
    return F.replay(ctx, rep)
