"""C11 — rolling / cumulative / expanding / ewm results do not depend on batching (engine F).

rolling(w).{sum,mean,min,max,count,std,var,median}, rolling('1ns'|'2ns' | '1s'|'2s').{sum,count,max},
cumsum/cumprod/cummin/cummax, expanding().{sum,mean,count,var,std}, ewm(com=1 | alpha=.5).mean(),
each on a streaming Series (sdf.x...) and, for a few, on a two-column frame.
Oracle: rolling / cumulative — concat(emitted) == pandas in one pass over the whole table;
expanding / ewm emit one value per batch == the one-pass value at the prefix's last row.
"""
from .. import frames as F

MOD = __name__
SPECS = {}
ROLL_OPS = ("sum", "mean", "min", "max", "count", "std", "var", "median")
TROLL_OPS = ("sum", "count", "max")
CUM_OPS = ("cumsum", "cumprod", "cummin", "cummax")
EXP_OPS = ("sum", "mean", "count", "var", "std")


def _chain(*preds):
    def f(info):
        for name, p in preds:
            if p(info):
                return name
        return None
    return f


# The four recorded defects are matched by input predicate AND by a model of the defect: the named detail is
# only given when the observation is exactly what the model predicts; any other divergence on such inputs is
# classified by the generic predicates and is never a known finding.

def _data(i):
    full = i.env.full
    return full[list(i.spec.cols)] if len(i.spec.cols) > 1 else full[i.spec.cols[0]]


def p_cum_nan_carry(i):
    """cum*: model = the carried row is the last *cumulative* row of the previous batch, NaN included"""
    if not F.p_nan_at_batch_end(i) or i.fail.got is None:
        return False
    import pandas as pd
    op = i.spec.key.split("[")[0]
    if op not in CUM_OPS:
        return False          # composite specs of the second catalogue: no model of the repaired defect, generic predicates apply
    data, state, outs = _data(i), None, []
    for lo, hi in i.bounds:
        if hi == lo:
            continue
        new = data.iloc[lo:hi]
        res = getattr(pd.concat([state, new]) if state is not None else new, op)()
        outs.append(res.iloc[1:] if state is not None else res)
        state = res.iloc[-1:]
    return F.diff(i.fail.got, pd.concat(outs)) is None


def _nan_cols_model(i, hit, value):
    """one-pass value at the prefix's last row, with `value` substituted in the columns selected by hit(col values)"""
    data = _data(i)
    want = i.spec.oracle(i.env.full).iloc[i.hi - 1]
    pre = data.iloc[:i.hi]
    if len(i.spec.cols) == 1:
        return value if hit(pre) else want
    want = want.copy()
    for c in i.spec.cols:
        if hit(pre[c]):
            want[c] = value
    return want


def p_ewm_nan_poisons(i):
    """ewm: model = NaN from the first NaN row on (pandas skips missing observations)"""
    if i.clause != "value" or i.fail.got is None or not F.p_nan_in_prefix(i):
        return False
    model = _nan_cols_model(i, lambda col: bool(col.isna().any()), F.NAN)
    return F.diff(i.fail.got, model, squeeze=True) is None


def p_ewm_empty_first(i):
    """ewm: model = empty output for every batch after an empty first batch"""
    return F.p_empty_first_batch(i) and i.clause == "type" and str(i.fail.observed.get("got", "")).endswith("with 0 rows")


def p_expsum_zero_for_all_nan(i):
    """expanding().sum(): model = 0.0 instead of NaN while a column has only seen NaN"""
    if i.clause != "value" or i.fail.got is None or not F.p_all_nan_prefix(i):
        return False
    model = _nan_cols_model(i, lambda col: bool(col.isna().all()), 0.0)
    return F.diff(i.fail.got, model, squeeze=True) is None


GEN = _chain(*F.GENERIC)
CUM = _chain(("nan-at-batch-end", p_cum_nan_carry), *F.GENERIC)
EWM = _chain(("empty-first-batch", p_ewm_empty_first), ("nan-in-prefix", p_ewm_nan_poisons), *F.GENERIC)
EXPSUM = _chain(("all-nan-prefix", p_expsum_zero_for_all_nan), *F.GENERIC)


def add(key, site, mode, f, classify=GEN, cols=("x",)):
    SPECS[key] = F.Spec(key, site, mode, f, classify=classify, cols=cols)


for w in (1, 2, 3):
    for op in ROLL_OPS:
        add("rolling(%d).%s" % (w, op), "rolling(n).%s" % op, "concat",
            lambda d, w=w, op=op: getattr(d.x.rolling(w), op)())
    add("rolling(%d).sum[frame]" % w, "rolling(n).sum", "concat",
        lambda d, w=w: d[["x", "y"]].rolling(w).sum(), cols=("x", "y"))
for w in ("1ns", "2ns", "1s", "2s"):
    for op in TROLL_OPS:
        add("rolling(%s).%s" % (w, op), "rolling(time).%s" % op, "concat",
            lambda d, w=w, op=op: getattr(d.x.rolling(w), op)())
    add("rolling(%s).sum[frame]" % w, "rolling(time).sum", "concat",
        lambda d, w=w: d[["x", "y"]].rolling(w).sum(), cols=("x", "y"))
for op in CUM_OPS:
    add(op, op, "concat", lambda d, op=op: getattr(d.x, op)(), classify=CUM)
    add(op + "[frame]", op, "concat", lambda d, op=op: getattr(d[["x", "y"]], op)(), classify=CUM, cols=("x", "y"))
for op in EXP_OPS:
    add("expanding.%s" % op, "expanding.%s" % op, "last",
        lambda d, op=op: getattr(d.x.expanding(), op)(), classify=EXPSUM if op == "sum" else GEN)
add("expanding.sum[frame]", "expanding.sum", "last", lambda d: d[["x", "y"]].expanding().sum(), classify=EXPSUM, cols=("x", "y"))
add("expanding.mean[frame]", "expanding.mean", "last", lambda d: d[["x", "y"]].expanding().mean(), cols=("x", "y"))
add("ewm(com=1).mean", "ewm.mean", "last", lambda d: d.x.ewm(com=1).mean(), classify=EWM)
add("ewm(alpha=.5).mean", "ewm.mean", "last", lambda d: d.x.ewm(alpha=0.5).mean(), classify=EWM)
add("ewm(com=1).mean[frame]", "ewm.mean", "last", lambda d: d[["x", "y"]].ewm(com=1).mean(), classify=EWM, cols=("x", "y"))
add("ewm(span=3).mean", "ewm.mean", "last", lambda d: d.x.ewm(span=3).mean(), classify=EWM)
add("ewm(halflife=1).mean", "ewm.mean", "last", lambda d: d.x.ewm(halflife=1).mean(), classify=EWM)
add("rolling(2).var[ddof=0]", "rolling(n).var", "concat", lambda d: d.x.rolling(2).var(ddof=0))
add("expanding.var[ddof=0]", "expanding.var", "last", lambda d: d.x.expanding().var(ddof=0))

# --- second catalogue: asymmetric smoothing parameters, the column picked after the wrapper, positional / extra
#     arguments, boundary parameters, a stateful result chained onto another one --------------------------------------
SECOND = []


def add2(key, site, mode, f, classify=GEN, cols=("x",)):
    add(key, site, mode, f, classify=classify, cols=cols)
    SECOND.append(key)


add2("ewm(com=3).mean", "ewm.mean", "last", lambda d: d.x.ewm(com=3).mean(), classify=EWM)
add2("ewm(span=4).mean", "ewm.mean", "last", lambda d: d.x.ewm(span=4).mean(), classify=EWM)
add2("ewm(halflife=2).mean", "ewm.mean", "last", lambda d: d.x.ewm(halflife=2).mean(), classify=EWM)
add2("ewm(alpha=.2).mean", "ewm.mean", "last", lambda d: d.x.ewm(alpha=0.2).mean(), classify=EWM)
add2("ewm(alpha=1).mean", "ewm.mean", "last", lambda d: d.x.ewm(alpha=1).mean(), classify=EWM)
add2("ewm(com=0).mean", "ewm.mean", "last", lambda d: d.x.ewm(com=0).mean(), classify=EWM)
add2("frame.ewm(span=4).x.mean", "ewm.mean", "last", lambda d: d.ewm(span=4).x.mean(), classify=EWM)
add2("frame.ewm(halflife=2).x.mean", "ewm.mean", "last", lambda d: d.ewm(halflife=2).x.mean(), classify=EWM)
add2("frame.ewm(com=3)[[x,y]].mean", "ewm.mean", "last", lambda d: d.ewm(com=3)[["x", "y"]].mean(), classify=EWM, cols=("x", "y"))
add2("frame.ewm(alpha=.2).x.mean", "ewm.mean", "last", lambda d: d.ewm(alpha=0.2).x.mean(), classify=EWM)
add2("ewm(3).mean[positional com]", "ewm.mean", "last", lambda d: d.x.ewm(3).mean(), classify=EWM)
add2("frame.ewm(1,None).x.mean[positional]", "ewm.mean", "last", lambda d: d.ewm(1, None).x.mean(), classify=EWM)
add2("rolling(2,2).sum[positional]", "rolling(n).sum", "concat", lambda d: d.x.rolling(2, 2).sum())
add2("frame.rolling(3).x.sum", "rolling(n).sum", "concat", lambda d: d.rolling(3).x.sum())
add2("frame.rolling(2).x.mean", "rolling(n).mean", "concat", lambda d: d.rolling(2).x.mean())
add2("frame.rolling(2)[[x,y]].sum", "rolling(n).sum", "concat", lambda d: d.rolling(2)[["x", "y"]].sum(), cols=("x", "y"))
add2("frame.expanding.x.sum", "expanding.sum", "last", lambda d: d.expanding().x.sum(), classify=EXPSUM)
add2("frame.expanding.x.mean", "expanding.mean", "last", lambda d: d.expanding().x.mean())
add2("frame.expanding[[x,y]].count", "expanding.count", "last", lambda d: d.expanding()[["x", "y"]].count(), cols=("x", "y"))
add2("rolling(2).quantile(.5)", "rolling(n).quantile", "concat", lambda d: d.x.rolling(2).quantile(0.5))
add2("rolling(3).quantile(.25)", "rolling(n).quantile", "concat", lambda d: d.x.rolling(3).quantile(0.25))
add2("rolling(2).aggregate(sum)", "rolling(n).sum", "concat", lambda d: d.x.rolling(2).aggregate("sum"))
add2("rolling(3).aggregate(max)", "rolling(n).max", "concat", lambda d: d.x.rolling(3).aggregate("max"))
add2("rolling(2).std(0)", "rolling(n).std", "concat", lambda d: d.x.rolling(2).std(0))
add2("rolling(3).var(0)", "rolling(n).var", "concat", lambda d: d.x.rolling(3).var(0))
add2("rolling(3).std[ddof=2]", "rolling(n).std", "concat", lambda d: d.x.rolling(3).std(ddof=2))
add2("rolling(2).sum.cumsum", "cumsum", "concat", lambda d: d.x.rolling(2).sum().cumsum(), classify=CUM)
add2("cumsum.rolling(2).sum", "rolling(n).sum", "concat", lambda d: d.x.cumsum().rolling(2).sum())
add2("cumsum.cummax", "cummax", "concat", lambda d: d.x.cumsum().cummax(), classify=CUM)
add2("(x+1).cumsum", "cumsum", "concat", lambda d: (d.x + 1).cumsum(), classify=CUM)
add2("cumsum+1", "cumsum", "concat", lambda d: d.x.cumsum() + 1, classify=CUM)
add2("[x>1].cumsum", "cumsum", "concat", lambda d: d[d.x > 1].x.cumsum(), classify=CUM)
add2("expanding.std[ddof=2]", "expanding.std", "last", lambda d: d.x.expanding().std(ddof=2))
SECOND_T = []
for w in ("2ns",):
    add("frame.rolling(%s).x.sum" % w, "rolling(time).sum", "concat", lambda d, w=w: d.rolling(w).x.sum())
    add("rolling(%s).mean" % w, "rolling(time).mean", "concat", lambda d, w=w: d.x.rolling(w).mean())
    SECOND_T += ["frame.rolling(%s).x.sum" % w, "rolling(%s).mean" % w]

ROWS = [k for k in SPECS if not any(t in k for t in ("ns)", "s)")) and k not in SECOND]
ROWS5 = [k for k in ROWS if not k.startswith(("rolling(1)", "rolling(2)"))]
T_NS = [k for k in SPECS if "ns)" in k and k not in SECOND_T]
T_NS_CORE = [k for k in T_NS if "[frame]" not in k]
T_S = [k for k in SPECS if "s)" in k and "ns)" not in k]
LONG = ["rolling(3).sum", "rolling(3).count", "rolling(2).mean", "cumsum", "expanding.sum", "ewm(com=1).mean"]
# cumulative aggregations on a DatetimeIndex with duplicate labels (also across batch boundaries)
CUM_T = list(CUM_OPS) + ["cumsum[frame]", "expanding.sum", "ewm(com=1).mean"]


def plan(ctx):
    if ctx.thorough:
        return [F.Suite(ROWS, "v", {1: 2, 2: 2, 3: 2, 4: 2}),
                F.Suite(ROWS5, "v", {5: 1}),
                F.Suite(T_NS, "v", {1: 2, 2: 2, 3: 2}, grid="ns"),
                F.Suite(T_NS_CORE, "v", {4: 1}, grid="ns"),
                F.Suite(T_S, "v", {1: 2, 2: 2, 3: 2}, grid="s"),
                F.Suite(LONG, "one", {5: 1, 6: 1, 7: 0}),
                F.Suite(CUM_T, "v", {2: 2, 3: 2, 4: 1}, grid="ns"),
                F.Suite(SECOND, "v", {1: 2, 2: 2, 3: 2, 4: 1}),
                F.Suite(SECOND, "inc", {3: 2, 4: 2, 5: 0}),
                F.Suite(LONG, "inc", {5: 1, 6: 0}),
                F.Suite(SECOND_T, "v", {2: 2, 3: 2, 4: 0}, grid="ns"),
                F.Suite(["rolling(2).sum", "rolling(3).mean", "rolling(2).count", "frame.rolling(2).x.mean", "rolling(2).sum[frame]"], "v", {2: 2, 3: 2, 4: 0}, grid="ns")]
    return [F.Suite(ROWS, "v", {1: 1, 2: 1, 3: 1}),
            F.Suite(T_NS, "v", {1: 1, 2: 1}, grid="ns"),
            F.Suite(T_NS_CORE, "v", {3: 1}, grid="ns"),
            F.Suite(T_S, "v", {1: 1, 2: 1}, grid="s"),
            F.Suite(LONG, "one", {5: 0, 6: 0}),
            F.Suite(CUM_T, "v", {2: 1, 3: 1}, grid="ns"),
            F.Suite(SECOND, "v", {1: 1, 2: 1, 3: 1}),
            F.Suite(SECOND, "inc", {3: 1, 4: 0}),
            F.Suite(LONG + ["ewm(com=3).mean", "frame.rolling(3).x.sum"], "inc", {5: 0}),
            F.Suite(SECOND_T, "v", {2: 1, 3: 1}, grid="ns"),
            F.Suite(["rolling(2).sum", "rolling(3).mean", "rolling(2).count", "frame.rolling(2).x.mean", "rolling(2).sum[frame]"], "v", {2: 1, 3: 1}, grid="ns")]


RULE = ("every table of R rows over x in {1,2,NaN} (y = a second column with a shifted NaN pattern), every composition "
        "into consecutive batches with <= E empty batches at any position, for time-based rolling additionally every "
        "non-decreasing DatetimeIndex with increments {0,1,2} on the ns and the s grid; one fresh pipeline per "
        "(aggregation, table, split). distinct case = (family, table, time pattern, split); non-trivial = it contains "
        "an empty batch, a batch of >= 2 rows, a NaN, or a repeated key. states = distinct (aggregation, prefix rows, "
        "canonical emitted value).")
ASSUME = ["value alphabet {1.0, 2.0, NaN}; integer index 0..R-1 or DatetimeIndex from increments {0,1,2} (first row fixed: only differences are used)",
          "pandas is the reference: rolling/cumulative compared as concat(emitted) vs one pass; expanding/ewm as one value per batch vs one-pass value at the prefix's last row",
          "example frame = first row of the table (an empty example makes Series expanding().var() fail at construction)",
          "an exception while the prefix has no rows obliges nothing (counted as empty_prefix_exceptions)",
          "tolerance 1e-9, NaN == NaN, dtype-only differences ignored"]


def check(ctx):
    return F.check(ctx, MOD, plan(ctx), RULE, ASSUME,
                   notes=["ewm: a 1-row frame / 1-element series is accepted where pandas yields a row / scalar (shape of the emitted object is not part of the statement)"])


def replay(ctx, rep):
    return F.replay(ctx, rep)
