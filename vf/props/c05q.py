"""C05, synchronous half (engine Q): the C01 program space with a reference counter on every
element; after every operation the count of every element emitted so far must equal the number
of reference-model holders, never be negative, never rise after zero, and the callback must
have fired exactly once for everything no node holds any more."""
from . import c01


def extend(ctx, rep):
    T = ctx.thorough
    q = c01.run_space(ctx, "C05", "rc", 5 if T else 4, (1, 2, 3), T,
                      "synchronous (loop-less) pipelines; every element carries one RefCounter",
                      "exception, value, negative, rise-after-zero, count!=holders, callback-missing, callback-twice")
    for f in q.findings:
        rep.add(f)
    c, d = rep.coverage, q.coverage
    for k in ("evaluations", "states", "transitions", "traces_validated_against_impl", "distinct_nontrivial"):
        c[k] = c.get(k, 0) + d.get(k, 0)
    c["rule"] = "schedule half: " + c.get("rule", "") + " || sequence half: " + d["rule"]
    c["sequence_half"] = dict((k, d[k]) for k in ("programs", "depth", "by_shape", "states", "evaluations"))
    c["samples"] = c.get("samples", []) + d["samples"][:2]
    rep.exhaustive = rep.exhaustive and q.exhaustive
    rep.assumptions += q.assumptions
    return rep


replay = c01.replay
