"""C15 — delivery follows the current topology under connect / disconnect / destroy / gc.

Engine Q over edit histories: explicit-state BFS on a fixed pool of real nodes (sources a, b, c;
m = a.map(inc); a join j over (b, c); recorders; one branch that the program can stop
referencing; one sink), operations = emits at every source, connect / disconnect / destroy of
every edge that keeps the graph free of parallel edges, drop-last-reference + gc.collect(),
sink.destroy().  After every operation: links mutually consistent, build_node_set equals the
reference reachable set, deliveries equal the reference interpreter over the *current* edges.
"""
import gc
import logging

from ..common import Finding, Report
from ..refmodel import inc

KINDS = ("zip", "cl", "cl_e0", "cl_e1", "union")


def _rec_class():
    from streamz import Stream

    class Rec(Stream):
        def __init__(self, up, name, log):
            self.n = name
            self.log = log
            Stream.__init__(self, up)

        def update(self, x, who=None, metadata=None):
            ok = isinstance(metadata, list) and all(isinstance(d, dict) for d in metadata)
            self.log.append((self.n, x, tuple(d.get("id") for d in metadata) if ok else repr(metadata)[:60]))
    return Rec


class Real:
    def __init__(self, kind):
        from streamz import Stream
        Rec = _rec_class()
        self.log = log = []
        a = Stream(stream_name="a")
        b = Stream(stream_name="b")
        c = Stream(stream_name="c")
        m = a.map(inc)
        if kind == "zip":
            j = b.zip(c)
        elif kind == "cl":
            j = b.combine_latest(c)
        elif kind == "cl_e0":
            j = b.combine_latest(c, emit_on=0)
        elif kind == "cl_e1":
            j = b.combine_latest(c, emit_on=1)      # an index other than 0: stays bound to c when b goes away
        else:
            j = b.union(c)
        self.nodes = dict(a=a, b=b, c=c, m=m, j=j)
        self.recs = dict(rm=Rec(m, "m", log), rj=Rec(j, "j", log))
        # a branch only the program references, and a sink
        self.branch = Rec(c.map(inc), "br", log)
        self.sink = a.sink(lambda x: log.append(("snk", x, None)))
        # a sink the program keeps no reference to (the usual `x.sink(f)` statement): active until destroyed
        c.sink(lambda x: log.append(("snk2", x, None)))

    def all_nodes(self):
        out = dict(self.nodes)
        out.update(self.recs)
        if self.branch is not None:
            out["br"] = self.branch
        return out


class Ref:
    """ordered edge lists; per-input state of the join"""

    def __init__(self, kind):
        self.kind = kind
        self.edges = {"a": ["m", "snk"], "b": ["j"], "c": ["j", "brm", "snk2"], "m": ["rm"], "j": ["rj"], "brm": ["br"]}
        self.ups = {"m": ["a"], "j": ["b", "c"], "rm": ["m"], "rj": ["j"], "a": [], "b": [], "c": [], "brm": ["c"], "br": ["brm"], "snk": ["a"],
                    "snk2": ["c"]}
        self.jstate = {"b": [], "c": []} if kind == "zip" else {"b": None, "c": None}
        self.emit_on = ["b"] if kind == "cl_e0" else (["c"] if kind == "cl_e1" else None)
        self.backlog = []      # complete zip tuples that became available through an edit

    def connect(self, u, d):
        self.edges.setdefault(u, [])
        self.edges[u].append(d)
        self.ups[d].append(u)
        if d == "j":
            if self.kind == "zip":
                self.jstate[u] = []
            elif self.kind.startswith("cl"):
                self.jstate[u] = None

    def disconnect(self, u, d):
        self.edges[u].remove(d)
        self.ups[d].remove(u)
        if d == "j" and self.kind != "union":
            self.jstate.pop(u)

    def push(self, node, item, frm, out):
        """item = (value, metadata ids)"""
        val, ids = item
        if node in ("rm", "rj", "br", "snk", "snk2"):
            out.append((node[1:] if node in ("rm", "rj") else node, val, None if node in ("snk", "snk2") else ids))
            return
        if node in ("m", "brm"):
            outs = [(inc(val), ids)]
        elif node == "j":
            outs = []
            if self.kind == "union":
                outs = [item]
            elif self.kind == "zip":
                self.jstate[frm].append(item)
                outs = self.zip_drain()      # every complete tuple, heads first
            else:
                self.jstate[frm] = item
                ups = self.ups["j"]
                if all(self.jstate[u] is not None for u in ups) and (self.emit_on is None or frm in self.emit_on):
                    outs = [(tuple(self.jstate[u][0] for u in ups), sum((self.jstate[u][1] for u in ups), ()))]
        else:
            outs = [item]
        for o in outs:
            for d in list(self.edges.get(node, [])):
                self.push(d, o, node, out)

    def zip_drain(self):
        outs = []
        ups = self.ups["j"]
        while ups and all(self.jstate[u] for u in ups):
            heads = [self.jstate[u].pop(0) for u in ups]
            outs.append((tuple(h[0] for h in heads), sum((h[1] for h in heads), ())))
        return outs

    def emit(self, src, val, ids=()):
        out = []
        self.push(src, (val, tuple(ids)), None, out)
        return out

    def reachable(self, start):
        """node set connected to start (both directions), as build_node_set sees it"""
        seen = set()
        todo = [start]
        while todo:
            n = todo.pop()
            if n in seen:
                continue
            seen.add(n)
            todo += list(self.edges.get(n, [])) + list(self.ups.get(n, []))
        return seen

    def key(self):
        return (tuple((k, tuple(v)) for k, v in sorted(self.edges.items())), tuple((k, tuple(v)) for k, v in sorted(self.ups.items())),
                tuple(sorted((k, repr(v)) for k, v in self.jstate.items())), tuple(self.emit_on or ()), tuple(self.backlog))


OPS = [("emit", "a", 1), ("emit", "b", 1), ("emit", "b", 2), ("emit", "c", 5), ("emit", "c", 6),
       ("connect", "a", "j"), ("connect", "m", "j"), ("disconnect", "b", "j"), ("disconnect", "c", "j"),
       ("disconnect", "a", "j"), ("disconnect", "m", "j"), ("connect", "b", "j"), ("connect", "c", "j"),
       ("destroy", "j"), ("destroy", "m"), ("dropref", "br"), ("sinkdestroy",),
       ("destroyonly", "j", "b"), ("destroyonly", "j", "c"),       # j.destroy(streams=[b]): only that input goes
       ("dropref", "br", "nogc"),           # the last reference goes and no cycle collection runs: plain reference counting must do
       ("movesink", "c", "b")]              # the sink nobody references is moved to another stream (disconnect, connect), then a collection runs


def applicable(ref, op, flags):
    if op[0] == "connect":
        u, d = op[1], op[2]
        if d in ref.edges.get(u, []):
            return False
        # no parallel edges: a and its own map branch m must not both feed j
        if u == "a" and "m" in ref.ups["j"]:
            return False
        if u == "m" and "a" in ref.ups["j"]:
            return False
        return True
    if op[0] in ("disconnect", "destroyonly"):
        if op[0] == "destroyonly":
            op = ("disconnect", op[2], op[1])
        if ref.kind == "cl_e0" and op[1] == "b":
            return False     # documented to raise: removing the emit_on stream
        if ref.kind == "cl_e1" and op[1] == "c":
            return False
        return op[2] in ref.edges.get(op[1], [])
    if op[0] == "destroy":
        if ref.kind == "cl_e0" and op[1] == "j" and "b" in ref.ups["j"]:
            return False
        if ref.kind == "cl_e1" and op[1] == "j" and "c" in ref.ups["j"]:
            return False
        return bool(ref.ups[op[1]])
    if op[0] == "dropref":
        return not flags["dropped"]
    if op[0] == "sinkdestroy":
        return not flags["sinkdead"]
    if op[0] == "movesink":
        return "snk2" in ref.edges.get(op[1], [])
    return True


def consistent(real):
    alln = real.all_nodes()
    alln["snk"] = real.sink
    for n, x in alln.items():
        for d in list(x.downstreams):
            if x not in d.upstreams:
                return ("down-without-up", n)
        for u in x.upstreams:
            if x not in list(u.downstreams):
                return ("up-without-down", n)
    return None


def run(kind, hist):
    """returns (violation or None, canonical key or None)"""
    real = Real(kind)
    ref = Ref(kind)
    flags = dict(dropped=False, sinkdead=False)
    log = real.log
    gc_was = gc.isenabled()
    gc.disable()
    try:
        for i, op in enumerate(hist):
            if not applicable(ref, op, flags):
                return "n/a", None
            log.clear()
            last = i == len(hist) - 1
            try:
                if op[0] == "emit":
                    ids = ((op[1], op[2]),) if op[2] % 2 == 1 else ()      # odd values carry one metadata dict
                    exp = ref.emit(op[1], op[2], ids)
                    if ids:
                        real.nodes[op[1]].emit(op[2], metadata=[{"id": ids[0]}])
                    else:
                        real.nodes[op[1]].emit(op[2])
                    if last and [e[:2] for e in log] == [e[:2] for e in exp] and list(log) != exp:
                        return ("md-content", _site([e[:2] + (0,) if False else e for e in log], exp), dict(got=list(log), want=exp, op=op)), None
                    if last and list(log) != exp:
                        missing = [e for e in exp if e not in log]
                        clause = "stuck-tuple" if (ref.kind == "zip" and missing and all(e[0] == "j" for e in missing) and
                                                   [e for e in log if e[0] != "j"] == [e for e in exp if e[0] != "j"]) else "delivery"
                        if any(e[0] == "br" for e in log) and flags["dropped"]:
                            clause = "gc-branch-alive"
                        if not any(e[0] == "snk" for e in log) and any(e[0] == "snk" for e in exp):
                            clause = "sink-dead"
                        if not any(e[0] == "snk2" for e in log) and any(e[0] == "snk2" for e in exp):
                            clause = "sink-dead"
                        return (clause, "j" if clause in ("stuck-tuple",) else _site(log, exp), dict(got=list(log), want=exp, op=op)), None
                elif op[0] == "connect":
                    ref.connect(op[1], op[2])
                    real.nodes[op[1]].connect(real.nodes[op[2]])
                elif op[0] == "disconnect":
                    ref.disconnect(op[1], op[2])
                    real.nodes[op[1]].disconnect(real.nodes[op[2]])
                elif op[0] == "destroyonly":
                    ref.disconnect(op[2], op[1])
                    real.nodes[op[1]].destroy(streams=[real.nodes[op[2]]])
                elif op[0] == "destroy":
                    for u in list(ref.ups[op[1]]):
                        ref.disconnect(u, op[1])
                    real.nodes[op[1]].destroy()
                elif op[0] == "dropref":
                    flags["dropped"] = True
                    ref.edges["brm"].remove("br")
                    ref.edges["c"].remove("brm")
                    ref.ups["brm"] = []
                    ref.ups["br"] = []
                    real.branch = None
                    if len(op) > 2 and op[2] == "nogc":
                        pass
                    else:
                        gc.collect()
                elif op[0] == "movesink":
                    from streamz.sinks import Sink
                    ref.disconnect(op[1], "snk2")
                    ref.connect(op[2], "snk2")
                    s2 = [d for d in real.nodes[op[1]].downstreams if isinstance(d, Sink)][0]
                    real.nodes[op[1]].disconnect(s2)
                    real.nodes[op[2]].connect(s2)
                    del s2          # the program keeps no reference: the sink stays active until destroyed
                    gc.collect()
                elif op[0] == "sinkdestroy":
                    flags["sinkdead"] = True
                    ref.edges["a"].remove("snk")
                    ref.ups["snk"] = []
                    real.sink.destroy()
                if op[0] != "emit" and log:
                    # the only deliveries an edit may cause: zip handing on tuples that the edit
                    # completed (the other accepted repair is to hand them on at the next arrival)
                    exp = [("j", t[0], t[1]) for t in ref.zip_drain()] if ref.kind == "zip" else []
                    if list(log) != exp and last:
                        return ("delivery", "zip", dict(got=list(log), want=exp, op=op, note="delivery during an edit")), None
            except Exception as e:   # noqa
                if last:
                    c = consistent(real)
                    return ("exception", _opsite(ref, op), dict(op=op, error="%s: %s" % (type(e).__name__, str(e)[:60]), links_after=c)), None
                return "n/a", None
            if last:
                c = consistent(real)
                if c:
                    return ("links", _opsite(ref, op), dict(op=op, problem=c)), None
                from streamz.graph import build_node_set
                for start in ("a", "b", "c"):
                    got = len(build_node_set(real.nodes[start]))
                    want = len(ref.reachable(start))
                    if got != want:
                        return ("node-set", _opsite(ref, op), dict(op=op, start=start, got=got, want=want)), None
        return None, (ref.key(), flags["dropped"], flags["sinkdead"], _real_state(real.nodes["j"]))
    finally:
        try:
            if not flags["sinkdead"]:
                real.sink.destroy()
        except Exception:
            pass
        try:
            from streamz.sinks import Sink
            for n in ("c", "b"):
                for d in list(real.nodes[n].downstreams):
                    if isinstance(d, Sink):
                        d.destroy()
        except Exception:
            pass
        if gc_was:
            gc.enable()


def _real_state(node):
    """the join's own instance state, by value (links and loop objects left out): hidden state a change adds
    (a parked backlog, a cached position) makes two histories distinct that the reference would merge"""
    out = []
    for k, v in sorted(vars(node).items()):
        if k in ("upstreams", "downstreams", "loop", "_loop", "name", "current_value", "current_metadata", "condition", "_condition", "literals"):
            continue
        try:
            r = repr(_plain(v))
        except Exception:   # noqa
            r = type(v).__name__
        out.append((k, r))
    return tuple(out)


def _plain(v, depth=0):
    from streamz import Stream
    if depth > 4:
        return "..."
    if isinstance(v, Stream):
        return "<%s>" % (getattr(v, "name", None) or type(v).__name__)
    if isinstance(v, dict):
        return sorted((repr(_plain(k, depth + 1)), _plain(x, depth + 1)) for k, x in v.items())
    if isinstance(v, (set, frozenset)):
        return sorted(repr(_plain(x, depth + 1)) for x in v)      # (iteration order of a set is not an observation)
    if isinstance(v, (list, tuple)) or type(v).__name__ == "deque":
        return [_plain(x, depth + 1) for x in v]
    if isinstance(v, (int, float, str, bool, type(None))):
        return v
    return type(v).__name__


def _site(log, exp):
    for i in range(max(len(log), len(exp))):
        g = log[i] if i < len(log) else None
        w = exp[i] if i < len(exp) else None
        if g != w:
            return {"j": "join", "m": "map", "br": "branch", "snk": "sink"}.get((w or g)[0], "?")
    return "?"


_JOIN = {"zip": "zip", "cl": "combine_latest", "cl_e0": "combine_latest", "cl_e1": "combine_latest", "union": "union"}


def _opsite(ref, op):
    if op[0] in ("connect", "disconnect") and op[2] == "j":
        return _JOIN[ref.kind]
    if op[0] in ("destroy", "destroyonly"):
        return _JOIN[ref.kind] if op[1] == "j" else "map"
    return op[0]


def _opsite_safe(kind, op):
    return _JOIN.get(kind, kind) if (len(op) > 1 and "j" in op[1:]) else op[0]


def _work(item):
    kind, depth = item
    from .. import bind_repo
    bind_repo()
    logging.disable(logging.CRITICAL)
    seen = set()
    frontier = [()]
    viol = {}
    runs = trans = 0
    samples = []
    for d in range(depth):
        nxt = []
        for h in frontier:
            for op in OPS:
                hist = h + (op,)
                try:
                    v, key = run(kind, hist)
                except Exception as e:   # noqa: something the bookkeeping cannot digest (never on the unchanged tree): a violation
                    v, key = ("unexpected-behaviour", _opsite_safe(kind, op), dict(op=op, error="%s: %s" % (type(e).__name__, str(e)[:160]))), None
                if v == "n/a":
                    continue
                runs += 1
                trans += 1
                if v is not None:
                    sig = (v[0], v[1], op[0])
                    if sig not in viol:
                        viol[sig] = (v, hist)
                    continue
                if key not in seen:
                    seen.add(key)
                    nxt.append(hist)
                    if len(samples) < 2 and d == depth - 1:
                        samples.append([list(o) for o in hist])
        frontier = nxt
    logging.disable(logging.NOTSET)
    return dict(kind=kind, states=len(seen), transitions=trans, runs=runs, violations=list(viol.values()), samples=samples, depth=depth)


def check(ctx):
    depth = 7 if ctx.thorough else 6
    rep = Report()
    tot = dict(states=0, transitions=0, runs=0)
    samples = []
    per = {}
    for r in ctx.pmap(_work, [(k, depth) for k in KINDS]):
        for k in tot:
            tot[k] += r[k]
        per[r["kind"]] = dict(states=r["states"], runs=r["runs"])
        samples += r["samples"][:1]
        for (clause, site, info), hist in r["violations"]:
            rep.add(Finding(clause, site, "%s/%s" % (r["kind"], hist[-1][0]),
                            dict(engine="seqbfs-edits", kind=r["kind"], history=[list(o) for o in hist], observed=info),
                            "join=%s history=%s :: %s" % (r["kind"], list(hist), str(info)[:300])))
    rep.coverage = dict(evaluations=tot["runs"], states=tot["states"], transitions=tot["transitions"],
                        traces_validated_against_impl=tot["runs"], distinct_nontrivial=tot["states"],
                        rule="BFS over histories of %d operations (5 emits, 8 connect/disconnect, 2 destroy, 2 destroy(streams=[one input]), drop-last-reference+gc, sink.destroy, moving the unreferenced sink) on a fixed node pool "
                             "(incl. a sink nobody references) with 5 join kinds, depth %d, dedup on (current edge lists, join state, flags); distinct = distinct canonical states" % (len(OPS), depth),
                        samples=samples, depth=depth, per_join=per)
    rep.assumptions = ["pipelines without parallel edges (excluded by construction)",
                       "zip after removing a lagging input may deliver the now-complete tuples at the edit or at the next arrival (both accepted)"]
    return rep


def replay(ctx, rep):
    hist = tuple(tuple(o) for o in rep["history"])
    v, _ = run(rep["kind"], hist)
    if v and v != "n/a":
        print("  replayed:", v)
        return False
    return True
