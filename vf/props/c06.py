"""C06 — streaming aggregations equal pandas on everything seen so far (engine F).

After batch k, if the (filtered) prefix has >= 1 row, the emitted value equals the same pandas
aggregation on concat(batches[:k+1]).  Elementwise expressions, filters, column selection and
assignment yield for each batch (empty ones included) what pandas yields on that batch.

Frame columns: k in {a,b} (object), x in {1,2,NaN}, y = second numeric column (1->2, 2->NaN, NaN->1).
`Frame` has no var/std: the public route to a running variance is expanding().var()/std().
"""
from .. import frames as F

MOD = __name__
SPECS = {}


def _chain(*preds):
    def f(info):
        for name, p in preds:
            if p(info):
                return name
        return None
    return f


def p_filter_emptied_batch(i):
    pre = getattr(i.spec, "pre", None)
    if pre is None:
        return False
    import pandas as pd
    for (lo, hi) in i.bounds[:i.step + 1]:
        if hi > lo:
            rows = i.rows[lo:hi]
            d = pd.DataFrame({"k": pd.Series([r[0] for r in rows], dtype=object), "x": [r[1] for r in rows],
                              "y": [F.ymap(r[1]) for r in rows]})
            if len(pre(d)) == 0:
                return True
    return False


CLS = _chain(("all-nan-prefix", F.p_all_nan_prefix), ("empty-first-batch", F.p_empty_first_batch),
             ("empty-batch-before-failure", F.p_empty_batch_before), ("filter-emptied-batch", p_filter_emptied_batch),
             ("nan-in-prefix", F.p_nan_in_prefix))


def add(key, site, s, p=None, mode="prefix", cols=("x",), pre=None, rank=None):
    sp = F.Spec(key, site, mode, s, p, classify=CLS, cols=cols, rank=rank)
    sp.pre = pre
    SPECS[key] = sp


XY = ["x", "y"]
# --- plain reductions -----------------------------------------------------------------
for op in ("sum", "count", "mean"):
    add("Series.%s" % op, "Series.%s" % op, lambda d, op=op: getattr(d.x, op)())
    add("DataFrame.%s" % op, "DataFrame.%s" % op, lambda d, op=op: getattr(d[XY], op)(), cols=XY)
add("Series.size", "Series.size", lambda d: d.x.size)
add("DataFrame.size", "DataFrame.size", lambda d: d[XY].size, cols=XY)
for op in ("var", "std"):
    add("Series.%s" % op, "Series.%s" % op, lambda d, op=op: getattr(d.x.expanding(), op)(), lambda d, op=op: getattr(d.x, op)())
    add("DataFrame.%s" % op, "DataFrame.%s" % op, lambda d, op=op: getattr(d[XY].expanding(), op)(),
        lambda d, op=op: getattr(d[XY], op)(), cols=XY)
add("Series.value_counts[x]", "Series.value_counts", lambda d: d.x.value_counts(), rank=0)
add("Series.value_counts[k]", "Series.value_counts", lambda d: d.k.value_counts(), rank=1)
REDUCE_V = [k for k in SPECS if k != "Series.value_counts[k]"]
REDUCE_SERIES = [k for k in REDUCE_V if k.startswith("Series.")]
REDUCE_K = ["Series.value_counts[k]"]

# --- groupby --------------------------------------------------------------------------
GOPS = ("sum", "count", "size", "mean", "var", "std")
for op in GOPS:
    add("groupby(col).%s" % op, "groupby(col).%s" % op, lambda d, op=op: getattr(d.groupby("k").x, op)())
    add("groupby(series).%s" % op, "groupby(series).%s" % op, lambda d, op=op: getattr(d.groupby(d.k).x, op)())
for op in ("sum", "mean", "count"):
    add("groupby(col).%s[frame]" % op, "groupby(col).%s" % op, lambda d, op=op: getattr(d.groupby("k"), op)(), cols=XY)
add("groupby([col]).sum", "groupby(col).sum", lambda d: d.groupby(["k"]).x.sum(), rank=1)
add("groupby(series).sum[Series]", "groupby(series).sum", lambda d: d.x.groupby(d.k).sum())
add("groupby(series).mean[Series]", "groupby(series).mean", lambda d: d.x.groupby(d.k).mean())
add("groupby(x>1).sum", "groupby(series).sum", lambda d: d.groupby(d.x > 1).y.sum(), cols=XY, rank=1)
GROUP = [k for k in SPECS if k.startswith("groupby(")]
GROUP_COL = [k for k in GROUP if k.startswith("groupby(col)") and "[frame]" not in k]
GROUP_MAIN = [k for k in GROUP if k.startswith(("groupby(col).", "groupby(series).")) and "[" not in k]
GROUP_EXTRA = [k for k in GROUP if k not in GROUP_MAIN]

# --- elementwise trees (depth <= 2 over +scalar, *column, comparison, [mask], [[cols]], assign) ---
EXPRS = {
    "x+1": lambda d: d.x + 1,
    "x*y": lambda d: d.x * d.y,
    "x>1": lambda d: d.x > 1,
    "[[k,x]]": lambda d: d[["k", "x"]],
    "(x+1)+1": lambda d: (d.x + 1) + 1,
    "(x+1)*y": lambda d: (d.x + 1) * d.y,
    "(x*y)+1": lambda d: d.x * d.y + 1,
    "(x*y)*y": lambda d: d.x * d.y * d.y,
    "(x+1)>2": lambda d: (d.x + 1) > 2,
    "(x*y)>1": lambda d: (d.x * d.y) > 1,
    "[x>1]": lambda d: d[d.x > 1],
    "[y>1]": lambda d: d[d.y > 1],
    "[k==a]": lambda d: d[d.k == "a"],
    "[[k,x]].x+1": lambda d: d[["k", "x"]].x + 1,
    "assign(z=x+1)": lambda d: d.assign(z=d.x + 1),
    "assign(z=x*y)": lambda d: d.assign(z=d.x * d.y),
    "assign(z=x>1)": lambda d: d.assign(z=d.x > 1),
    "[x>1][[k,x]]": lambda d: d[d.x > 1][["k", "x"]],
    "[[k,x]][x>1]": lambda d: d[["k", "x"]][d.x > 1],
    "[x>1].assign(z=x+1)": lambda d: (lambda e: e.assign(z=e.x + 1))(d[d.x > 1]),
    # reflected operators: the streaming operand is the *second* one (goes through partial_by_order)
    "2-x": lambda d: 2 - d.x,
    "2/x": lambda d: 2 / d.x,
    "1+x": lambda d: 1 + d.x,
    "2-(x*y)": lambda d: 2 - d.x * d.y,
    "2**x": lambda d: 2 ** d.x,
}
for name, f in EXPRS.items():
    add("batch:" + name, "elementwise", f, mode="perbatch", cols=XY)
PERBATCH = [k for k in SPECS if k.startswith("batch:")]


def under(name, pre, agg, site):
    """aggregation over the prefix of a filtered / transformed stream: obliged only when the
    filtered prefix has a row"""
    def oracle(d):
        e = pre(d)
        if len(e) == 0:
            return F.NOOB
        return agg(e)
    add(name, site, lambda d: agg(pre(d)), oracle, pre=pre)


FILTERS = {"[x>1]": EXPRS["[x>1]"], "[y>1]": EXPRS["[y>1]"], "[k==a]": EXPRS["[k==a]"]}
for fname, pre in FILTERS.items():
    under("%s.x.sum" % fname, pre, lambda e: e.x.sum(), "Series.sum")
    under("%s.x.mean" % fname, pre, lambda e: e.x.mean(), "Series.mean")
    under("%s.x.count" % fname, pre, lambda e: e.x.count(), "Series.count")
    under("%s.groupby(col).sum" % fname, pre, lambda e: e.groupby("k").x.sum(), "groupby(col).sum")
    under("%s.groupby(col).mean" % fname, pre, lambda e: e.groupby("k").x.mean(), "groupby(col).mean")
under("[x>1].groupby(series).sum", FILTERS["[x>1]"], lambda e: e.groupby(e.k).x.sum(), "groupby(series).sum")
under("[x>1][[k,x]].groupby(col).sum", EXPRS["[x>1][[k,x]]"], lambda e: e.groupby("k").x.sum(), "groupby(col).sum")
under("[x>1].assign(z=x+1).z.sum", EXPRS["[x>1].assign(z=x+1)"], lambda e: e.z.sum(), "Series.sum")
# (Series expanding().var() cannot be constructed when the example is emptied by the filter: ZeroDivisionError
#  while computing the example result; the two-column frame route has no such problem)
under("[x>1].var[frame]", FILTERS["[x>1]"], lambda e: e[XY].var(), "DataFrame.var")
SPECS["[x>1].var[frame]"].sbuild = lambda d: d[d.x > 1][XY].expanding().var()
under("(x+1).sum", lambda d: d, lambda e: (e.x + 1).sum(), "Series.sum")
under("(x*y).sum", lambda d: d, lambda e: (e.x * e.y).sum(), "Series.sum")
under("(x>1).sum", lambda d: d, lambda e: (e.x > 1).sum(), "Series.sum")
under("assign(z=x*y).groupby(col).z.sum", lambda d: d, lambda e: e.assign(z=e.x * e.y).groupby("k").z.sum(), "groupby(col).sum")
UNDER = [k for k in SPECS if k not in PERBATCH and k not in GROUP and k not in REDUCE_V and k not in REDUCE_K]

# --- second catalogue: the rest of the operator table, item assignment, frames assembled from expressions,
#     aggregations chained onto another stateful result, two pipelines alive at once -----------------------------


def _setitem(d):
    import pandas as pd
    d = d[["k", "x", "y"]]
    if isinstance(d, pd.DataFrame):
        d = d.copy()
    d["z"] = d.x + 1
    return d


def _setitem_frame(d):
    import pandas as pd
    d = d[["k", "x", "y"]]
    if isinstance(d, pd.DataFrame):
        d = d.copy()
    d[["a", "b"]] = d[["x", "y"]]
    return d


def _setitem_scalar(d):
    import pandas as pd
    d = d[["k", "x"]]
    if isinstance(d, pd.DataFrame):
        d = d.copy()
    d["z"] = 5
    return d


EXPRS2 = {
    "x<=1": lambda d: d.x <= 1,
    "x>=2": lambda d: d.x >= 2,
    "x<2": lambda d: d.x < 2,
    "x!=1": lambda d: d.x != 1,
    "x==y": lambda d: d.x == d.y,
    "x-1": lambda d: d.x - 1,
    "x-y": lambda d: d.x - d.y,
    "x/2": lambda d: d.x / 2,
    "x/y": lambda d: d.x / d.y,
    "x%2": lambda d: d.x % 2,
    "x//2": lambda d: d.x // 2,
    "x**2": lambda d: d.x ** 2,
    "7%x": lambda d: 7 % d.x,
    "7//x": lambda d: 7 // d.x,
    "3*x": lambda d: 3 * d.x,
    "-x": lambda d: -d.x,
    "abs(x-2)": lambda d: abs(d.x - 2),
    "(x>1)&(y>1)": lambda d: (d.x > 1) & (d.y > 1),
    "(x>1)|(y>1)": lambda d: (d.x > 1) | (d.y > 1),
    "(x>1)^(y>1)": lambda d: (d.x > 1) ^ (d.y > 1),
    "~(x>1)": lambda d: ~(d.x > 1),
    "True&(x>1)": lambda d: True & (d.x > 1),
    "False|(x>1)": lambda d: False | (d.x > 1),
    "True^(x>1)": lambda d: True ^ (d.x > 1),
    "[(x>1)&(k==a)]": lambda d: d[(d.x > 1) & (d.k == "a")],
    "setitem(z=x+1)": _setitem,
    "setitem(z=5)": _setitem_scalar,
    "frame{b:x+1,a:y}": lambda d: type(d)({"b": d.x + 1, "a": d.y}),
    "x.astype(str)": lambda d: d.k.astype(str),
    "x.round": lambda d: (d.x / 3).round(1),
    "x.map": lambda d: d.x.map(lambda v: v * 2),
    "reset_index.x": lambda d: d.reset_index().x + 1,
    "x.to_frame": lambda d: d.x.to_frame(),
    "k+k": lambda d: d.k + d.k,
    "tail(1)": lambda d: d.tail(1),
    "tail(0)": lambda d: d.tail(0),
    "x.map(na_action)": lambda d: d.x.map(lambda v: v * 2 if v == v else -1.0, na_action="ignore"),
    "assign(z,w)": lambda d: d.assign(z=d.x + 1, w=d.y * 2),
    "assign(z=x,w=x)": lambda d: (lambda a: d.assign(z=a, w=a))(d.x),
    "setitem([a,b]=[[x,y]])": lambda d: _setitem_frame(d),
    "set_index(k,drop=False)": lambda d: d.set_index("k", drop=False),
    "query(local_dict)": lambda d: d.query("x > @lim", local_dict={"lim": 1}),
    "a*a": lambda d: (lambda a: a * a)(d.x),
    "a+a+a": lambda d: (lambda a: a + a + a)(d.x),
    "a*a>a": lambda d: (lambda a: a * a > a)(d.x),
    "query(x>1)": lambda d: d.query("x > 1"),
    "set_index(k)": lambda d: d.set_index("k"),
    "set_index(k).x+1": lambda d: d.set_index("k").x + 1,
    "index.to_frame": lambda d: d.index.to_frame(),
    "x.index.to_frame": lambda d: d.x.index.to_frame(),
    "query(x>1).x": lambda d: d.query("x > 1").x,
}
for name, f in EXPRS2.items():
    add("batch:" + name, "elementwise", f, mode="perbatch", cols=XY)
PERBATCH2 = ["batch:" + k for k in EXPRS2]

# aggregations over expressions / chained onto a stateful result (prefix oracles)
add("(x<=1).sum", "Series.sum", lambda d: (d.x <= 1).sum())
add("(7%x).sum", "Series.sum", lambda d: (7 % d.x).sum())
add("(-x).mean", "Series.mean", lambda d: (-d.x).mean())
add("setitem(z=x+1).z.sum", "Series.sum", lambda d: _setitem(d).z.sum(), cols=XY)
add("frame{b:x+1,a:y}.b.sum", "Series.sum", lambda d: type(d)({"b": d.x + 1, "a": d.y}).b.sum(), cols=XY)
add("frame{b:x+1,a:y}.sum", "DataFrame.sum", lambda d: type(d)({"b": d.x + 1, "a": d.y}).sum(), cols=XY)
add("cumsum.sum", "Series.sum", lambda d: d.x.cumsum().sum())
add("cumsum.mean", "Series.mean", lambda d: d.x.cumsum().mean())
add("cummax.count", "Series.count", lambda d: d.x.cummax().count())
add("rolling(2).sum.sum", "Series.sum", lambda d: d.x.rolling(2).sum().sum())
add("cumsum.groupby(series).sum", "groupby(series).sum", lambda d: d.x.cumsum().groupby(d.k).sum())
# the grouper is the streaming frame's own index (an index-like grouper; repeated labels on the time grid)
for op in ("sum", "count", "mean", "size", "var"):
    add("groupby(index).%s" % op, "groupby(series).%s" % op, lambda d, op=op: getattr(d.groupby(d.index).x, op)())
GINDEX = ["groupby(index).%s" % op for op in ("sum", "count", "mean", "size", "var")]
# aggregations of an aggregation's running result (class Frames: evaluated on every update)
add("groupby.sum|sum", "Series.sum", lambda d: d.groupby("k").x.sum().sum())
add("groupby.sum|mean", "Series.mean", lambda d: d.groupby("k").x.sum().mean())
add("groupby.count|count", "Series.count", lambda d: d.groupby("k").x.count().count())
add("groupby.sum|size", "Series.size", lambda d: d.groupby("k").x.sum().size)
add("groupby.sum|var", "Series.var", lambda d: d.groupby("k").x.sum().var())
add("groupby.sum|std", "Series.std", lambda d: d.groupby("k").x.sum().std())
add("groupby.sum|var(ddof=0)", "Series.var", lambda d: d.groupby("k").x.sum().var(ddof=0))
add("groupby.sum|std(ddof=0)", "Series.std", lambda d: d.groupby("k").x.sum().std(ddof=0))
add("(a*a).sum", "Series.sum", lambda d: (lambda a: a * a)(d.x).sum())
add("groupby.mean|tail(1)", "groupby(col).mean", lambda d: d.groupby("k").x.mean().tail(1))
add("frame.sum|sum", "DataFrame.sum", lambda d: d[XY].sum().sum(), cols=XY)
add("value_counts|sum", "Series.value_counts", lambda d: d.x.value_counts().sum())
add("groupby.sum[frame]|sum", "groupby(col).sum", lambda d: d.groupby("k").sum().sum(), cols=XY)
add("std(ddof=0)", "Series.std", lambda d: d.x.expanding().std(ddof=0), lambda d: d.x.std(ddof=0))
add("groupby(col).std[ddof=0]", "groupby(col).std", lambda d: d.groupby("k").x.std(ddof=0))
add("groupby(col).var[ddof=0]", "groupby(col).var", lambda d: d.groupby("k").x.var(ddof=0))
add("groupby(col).var[ddof=2]", "groupby(col).var", lambda d: d.groupby("k").x.var(ddof=2))
add("groupby(series).std[ddof=0]", "groupby(series).std", lambda d: d.groupby(d.k).x.std(ddof=0))


def _two(first, second):
    """two pipelines alive on the same source, the checked one built first (settings kept on the class leak here)"""
    def f(d):
        a = first(d)
        b = second(d)
        if hasattr(b, "stream"):
            f.keep = b.stream.sink_to_list()      # the second pipeline really runs
        return a
    return f


add("two:groupby.var(ddof=1)|var(ddof=0)", "groupby(col).var",
    _two(lambda d: d.groupby("k").x.var(ddof=1), lambda d: d.groupby("k").x.var(ddof=0)))
add("two:groupby.var(ddof=0)|var(ddof=1)", "groupby(col).var",
    _two(lambda d: d.groupby("k").x.var(ddof=0), lambda d: d.groupby("k").x.var(ddof=1)))
add("two:groupby.sum|mean", "groupby(col).sum", _two(lambda d: d.groupby("k").x.sum(), lambda d: d.groupby("k").x.mean()))
add("two:sum|mean", "Series.sum", _two(lambda d: d.x.sum(), lambda d: d.x.mean()))
add("two:expanding.var(ddof=1)|var(ddof=0)", "Series.var",
    _two(lambda d: d.x.expanding().var(ddof=1), lambda d: d.x.expanding().var(ddof=0)), lambda d: d.x.var(ddof=1))
add("two:value_counts|sum", "Series.value_counts", _two(lambda d: d.x.value_counts(), lambda d: d.x.sum()), rank=0)


# an expression mixing the current batch with a running aggregate stays a streaming series:
# per batch x_j + S_j (S_j = the running sum including batch j), and its own .sum() runs over all batches
def _mixed_sum(pre, bounds):
    import numpy as np
    x = pre.x
    tot = 0.0
    for lo, hi in bounds:
        if hi == lo:
            continue
        S = x.iloc[:hi].sum()
        tot += (x.iloc[lo:hi] + S).sum()
    return np.float64(tot)


def _mixed_batch(pre, bounds):
    lo, hi = bounds[-1]
    return pre.x.iloc[lo:hi] + pre.x.iloc[:hi].sum()


SPECS["split:(x+x.sum()).sum"] = F.Spec("split:(x+x.sum()).sum", "Series.sum", "split", lambda d: (d.x + d.x.sum()).sum(), _mixed_sum, classify=CLS)
SPECS["split:x+x.sum()"] = F.Spec("split:x+x.sum()", "elementwise", "split", lambda d: d.x + d.x.sum(), _mixed_batch, classify=CLS)
SECOND = [k for k in SPECS if k not in PERBATCH and k not in GROUP and k not in REDUCE_V and k not in REDUCE_K and k not in UNDER
          and k not in PERBATCH2 and k not in GINDEX]
ZERO = ["Series.mean", "DataFrame.mean", "Series.sum", "groupby(col).mean", "groupby(series).mean", "groupby(col).mean[frame]",
        "Series.var", "(-x).mean", "cumsum.mean"]
UNDER_Q = [k for k in UNDER if not (k.startswith(("[y>1]", "[k==a]")) and ("mean" in k or "count" in k))]


def plan(ctx):
    if ctx.thorough:
        return [F.Suite(REDUCE_V, "v", {1: 2, 2: 2, 3: 2, 4: 2}),
                F.Suite(REDUCE_SERIES, "v", {5: 2}),
                F.Suite(REDUCE_K, "k", {1: 2, 2: 2, 3: 2, 4: 2, 5: 2}),
                F.Suite(GROUP, "kv", {1: 2, 2: 2, 3: 2}),
                F.Suite(GROUP_COL, "kv", {4: 0}),
                F.Suite(GROUP, "kv3", {4: 1}),
                F.Suite(PERBATCH, "kv", {1: 2, 2: 2, 3: 1}),
                F.Suite(UNDER, "kv", {1: 2, 2: 2, 3: 2}),
                F.Suite(UNDER, "kv3", {4: 1}),
                F.Suite(PERBATCH2, "kv", {1: 2, 2: 2, 3: 0}),
                F.Suite(SECOND, "kv", {1: 2, 2: 2, 3: 1}),
                F.Suite(SECOND, "kv3", {4: 1}),
                F.Suite(SECOND, "inc", {3: 2, 4: 1}),
                F.Suite(ZERO, "vz", {1: 2, 2: 2, 3: 2, 4: 1}),
                F.Suite(GINDEX, "v", {1: 2, 2: 2, 3: 2, 4: 0}, grid="ns"),
                F.Suite(GINDEX, "kv3", {2: 2, 3: 1})]
    return [F.Suite(REDUCE_V, "v", {1: 1, 2: 1, 3: 1}),
            F.Suite(REDUCE_SERIES, "v", {4: 0}),
            F.Suite(REDUCE_K, "k", {1: 1, 2: 1, 3: 1, 4: 1}),
            F.Suite(GROUP, "kv", {1: 1, 2: 1}),
            F.Suite(GROUP_MAIN, "kv", {3: 0}),
            F.Suite(GROUP_MAIN, "kv3", {3: 1}),
            F.Suite(GROUP_EXTRA, "kv3", {3: 0}),
            F.Suite(PERBATCH, "kv", {1: 1, 2: 1}),
            F.Suite(PERBATCH, "kv3", {3: 0}),
            F.Suite(UNDER_Q, "kv", {1: 1, 2: 1}),
            F.Suite(UNDER_Q, "kv3", {3: 0}),
            F.Suite(PERBATCH2, "kv", {1: 1, 2: 0}),
            F.Suite(PERBATCH2, "kv3", {3: 0}),
            F.Suite(SECOND, "kv3", {1: 1, 2: 1, 3: 1}),
            F.Suite(SECOND, "inc", {3: 0}),
            F.Suite(ZERO, "vz", {1: 1, 2: 1, 3: 1}),
            F.Suite(GINDEX, "v", {1: 1, 2: 1, 3: 1}, grid="ns"),
            F.Suite(GINDEX, "kv3", {2: 1, 3: 0})]


RULE = ("every table of R rows over (k, x) with k in {a,b}, x in {1,2,NaN} (family v: k fixed; k: x fixed; kv: all six rows; "
        "kv3: rows (a,1),(b,2),(a,NaN)), every composition into consecutive batches with <= E empty batches at any position; "
        "one fresh pipeline per (aggregation, table, split), compared after every batch with pandas on the prefix "
        "(on the batch for elementwise expressions). distinct case = (family, table, split); non-trivial = it contains an empty "
        "batch, a batch of >= 2 rows, a NaN, or a repeated key. states = distinct (aggregation, prefix rows, canonical emitted value).")
ASSUME = ["alphabets: x in {1.0, 2.0, NaN}, k in {'a','b'} (object dtype), y derived from x; integer index 0..R-1",
          "pandas on concat(batches[:k]) is the reference; where pandas yields NaN (var of one row, mean of an all-NaN prefix) NaN is expected",
          "running var/std are reached through expanding().var()/std() (Frame has no var/std)",
          "a prefix (after the upstream filter, if any) with no rows obliges nothing; exceptions there are counted as empty_prefix_exceptions",
          "example frame = first row of the table; tolerance 1e-9, NaN == NaN, names and dtype-only differences ignored"]


def check(ctx):
    return F.check(ctx, MOD, plan(ctx), RULE, ASSUME,
                   notes=["Frame.var / Frame.std do not exist in streamz; expanding().var()/std() is checked against pandas var()/std() of the prefix",
                          "GroupBy.size/var/std take no start= and are checked from a fresh pipeline only"])


def replay(ctx, rep):
    return F.replay(ctx, rep)
