"""C01 — pipelines compute the dataflow semantics.  Engine Q (explicit-state BFS over input
sequences on the real pipeline, reference interpreter as oracle).  The same program space
serves C10 (metadata) and the synchronous half of C05 (reference counters) in other modes.
"""
import itertools

from .. import seqbfs
from ..common import Finding, Report

# ---- typed node grammar: (spec, input types, output type) ---------------------------------
# types: i = int, p = pair, tn = non-empty tuple, te = possibly-empty tuple, '=' = same as input


def unary_menu():
    U = []

    def add(spec, it, ot):
        U.append((spec, it, ot))
    add(("map", "inc"), ("i",), "i")
    add(("map", "pair"), ("i",), "p")
    add(("starmap", "add"), ("p",), "i")
    add(("filter", "odd"), ("i",), "i")
    add(("remove", "odd"), ("i",), "i")
    add(("filter", "none"), ("i", "p", "tn", "te"), "=")
    add(("acc", "add", None, False), ("i",), "i")
    add(("acc", "add", 0, False), ("i",), "i")
    add(("acc", "accrs", 0, True), ("i",), "i")
    add(("mapargs",), ("i",), "i")                 # extra positional / keyword arguments are forwarded
    add(("starmapkw",), ("p",), "i")
    add(("filterargs",), ("i",), "i")
    add(("accws",), ("i",), "p")                   # with_state=True emits (state, result)
    add(("starmapargs",), ("p",), "i")
    add(("filtername",), ("i",), "i")
    add(("accnone",), ("i",), "i")
    add(("accrsws",), ("i",), "p")
    add(("pkey", "idx"), ("p",), "p")              # partition keyed by x[0] (non-callable key)
    add(("punique", 2, "idx0", "first"), ("p",), "p")      # partition_unique keyed by x[0] (non-callable key)
    add(("punique", 2, "idx0", "last"), ("p",), "p")
    add(("sinkf", "rec3"), ("i", "p"), "none")     # sink(func, *args, **kwargs)
    add(("sinktxt",), ("i", "p"), "none")          # sink_to_textfile(file-like, end="|")
    add(("accwsns",), ("i",), "p")                 # with_state=True without start
    add(("flattenview",), ("i",), "i")             # flatten over iterables that are not sequences
    add(("freq",), ("i",), "none")                 # frequencies(): a fresh dict per element (the alias oracle watches it)
    add(("unique", None, "ident", False), ("p",), "=")     # list-mode unique over equal-but-distinct tuples
    add(("unique", 1, "ident", False), ("p",), "=")
    add(("flatten",), ("p", "tn", "te"), "i")
    add(("pluck", 0), ("p", "tn"), "i")
    add(("pluck", (1, 0)), ("p",), "p")
    add(("collect",), ("i", "p", "tn", "te"), "te")
    for a in [(None, None, None), (1, None, None), (None, 2, None), (None, 3, 2), (1, None, 2), (2, 2, None), (None, 0, None), (1, 4, 2),
              (None, None, 3), (1, None, 3)]:
        add(("slice",) + a, ("i", "p", "tn", "te"), "=")
    for n in (1, 2):
        for key in (None, "parity"):
            add(("partition", n, key), ("i",), "p" if n == 2 else "tn")
        for key in ("ident", "parity"):
            for keep in ("first", "last"):
                add(("punique", n, key, keep), ("i",), "p" if n == 2 else "tn")
    for n in (1, 2, 3):
        for part in (True, False):
            add(("sw", n, part), ("i", "p"), "p" if (n == 2 and not part) else "tn")
    for ms in (None, 1, 2):
        for key in ("ident", "parity"):
            for h in (True, False):
                add(("unique", ms, key, h), ("i",), "=")
    return U


UNARY = unary_menu()

JOINS = [
    ("union",),
    ("zip", ()),
    ("zip", ((1, "L"),)),
    ("zip", ((0, "L"),)),
    ("zip", ((2, "L"),)),
    ("zip", ((0, "L"), (2, "M"))),
    ("zip", ((1, "L"), (2, "M"))),
    ("cl", None, ""),
    ("cl", (0,), "int"),
    ("cl", (1,), "int"),
    ("cl", (1,), "stream"),
    ("cl", (0, 1), "list"),
    ("cl", (1,), "tuple"),
    ("cl", (0,), "streams"),
    ("zl",),
]
# one node per output type that may follow a join (tuples / ints)
AFTER_JOIN = [("flatten",), ("pluck", 0), ("sw", 2, True), ("collect",), ("filter", "none"), ("slice", 1, None, 2)]


def out_type(prev, ot):
    return prev if ot == "=" else ot


def chains(maxlen, third_menu=None):
    def rec(prefix, t):
        if prefix:
            yield tuple(prefix)
        if len(prefix) == maxlen:
            return
        menu = UNARY if (len(prefix) < 2 or third_menu is None) else third_menu
        for spec, it, ot in menu:
            if t in it:
                yield from rec(prefix + [spec], out_type(t, ot))
    yield from rec([], "i")


def prog_chain(specs):
    prog = [("src", "s")]
    up = "s"
    for i, sp in enumerate(specs):
        nid = "n%d" % i
        prog.append(("node", nid, sp, (up,)))
        up = nid
    return tuple(prog)


def programs(thorough):
    progs = []
    for ch in chains(2):
        progs.append(("chain", prog_chain(ch), ("s",)))
    if thorough:
        third = [u for u in UNARY if u[0] in (("map", "inc"), ("filter", "none"), ("flatten",), ("collect",), ("sw", 2, True),
                                               ("unique", 1, "ident", True), ("partition", 2, None), ("slice", 1, None, 2),
                                               ("pluck", 0), ("acc", "add", None, False))]
        for ch in chains(3, third):
            if len(ch) == 3:
                progs.append(("chain3", prog_chain(ch), ("s",)))
    # a few nodes need one more element than the generic depth to reach their interesting state
    # (n=3 batches with a repeated key in the middle; LRU of size 2 being refreshed): shape "deep"
    for sp in (("punique", 3, "ident", "last"), ("punique", 3, "ident", "first"), ("punique", 3, "parity", "last"),
               ("partition", 3, None), ("sw", 3, False), ("unique", 2, "ident", True), ("unique", 2, "ident", False)):
        progs.append(("deep", prog_chain((sp,)), ("s",)))
    # falsy elements (0, and what nodes derive from it: (0, ..), 0-sums): every single node, and every node behind
    # a pair-maker, on the alphabet {0, 2, 1} (0 and 2 share a parity key, so "first of its key" is a falsy element)
    for spec, it, ot in UNARY:
        if "i" in it:
            progs.append(("falsy", prog_chain((spec,)), ("s",)))
        if "p" in it:
            progs.append(("falsy", prog_chain((("map", "pair"), spec)), ("s",)))
    for j in JOINS[:3]:
        progs.append(("falsy", (("src", "a"), ("src", "b"), ("node", "x", j, ("a", "b"))), ("a", "b")))
    # twins: two independent copies of the same node fed from separate sources must not influence
    # each other (state hoisted to class or module scope shows up here and nowhere else)
    for spec, it, ot in UNARY:
        if "i" in it:
            progs.append(("twin", (("src", "a"), ("node", "x", spec, ("a",)), ("src", "b"), ("node", "y", spec, ("b",))), ("a", "b")))
    for j in JOINS[:2] + JOINS[5:6] + JOINS[-1:]:
        progs.append(("twin", (("src", "a"), ("src", "b"), ("node", "x", j, ("a", "b")), ("src", "c"), ("src", "d"), ("node", "y", j, ("c", "d"))),
                      ("a", "b", "c", "d")))
    # fan-out in both attachment orders
    fans = [(("slice", None, 2, None), ("map", "inc")), (("slice", None, 1, None), ("acc", "add", None, False)),
            (("slice", 1, 3, None), ("sw", 2, True)),
            (("map", "inc"), ("filter", "odd")), (("acc", "add", None, False), ("sw", 2, True)), (("unique", 1, "parity", True), ("partition", 2, None)),
            (("slice", 1, None, 2), ("collect",)), (("map", "pair"), ("punique", 2, "parity", "last"))]
    for a, b in fans:
        for x, y in ((a, b), (b, a)):
            progs.append(("fanout", (("src", "s"), ("node", "n0", x, ("s",)), ("node", "n1", y, ("s",)),
                                      ("node", "n2", ("union",), ("n0", "n1")) if (x[0] in ("map", "filter", "acc", "unique", "slice") and y[0] in ("map", "filter", "acc", "unique", "slice") and x != ("map", "pair") and y != ("map", "pair")) else ("node", "n2", ("filter", "none"), ("n1",))), ("s",)))
    # fan-in of two entry points / two branches of one entry point through every join
    for j in JOINS:
        progs.append(("join", (("src", "a"), ("src", "b"), ("node", "j", j, ("a", "b"))), ("a", "b")))
        for after in AFTER_JOIN:
            if j[0] == "union" and after[0] in ("flatten", "pluck"):
                continue
            progs.append(("join+1", (("src", "a"), ("src", "b"), ("node", "j", j, ("a", "b")), ("node", "k", after, ("j",))), ("a", "b")))
        progs.append(("branchjoin", (("src", "s"), ("node", "m", ("map", "inc"), ("s",)), ("node", "j", j, ("s", "m"))), ("s",)))
        progs.append(("branchjoin", (("src", "s"), ("node", "m", ("map", "inc"), ("s",)), ("node", "j", j, ("m", "s"))), ("s",)))
        progs.append(("branchjoin", (("src", "s"), ("node", "m", ("filter", "odd"), ("s",)), ("node", "j", j, ("s", "m"))), ("s",)))
    # (the same node given twice to one join is a parallel edge: union delivers once, combine_latest and
    # zip_latest raise, zip(s, s) is pinned by the unit test test_zip_same - no stated semantics, not generated)
    # None is an ordinary element value for the joins (no user function involved): shape "nonejoin"
    for j in (("zip", ()), ("cl", None, ""), ("zl",), ("union",)):
        progs.append(("nonejoin", (("src", "a"), ("src", "b"), ("node", "j", j, ("a", "b"))), ("a", "b")))
    # three-input joins
    for j in (("zip", ()), ("cl", None, ""), ("zl",), ("union",)):
        progs.append(("join3", (("src", "a"), ("src", "b"), ("src", "c"), ("node", "j", j, ("a", "b", "c"))), ("a", "b", "c")))
    # feedback edges guarded by unique
    progs.append(("feedback", (("src", "s"), ("src", "back"), ("node", "u", ("union",), ("s", "back")), ("node", "q", ("unique", None, "ident", True), ("u",)),
                               ("node", "m", ("map", "nxt"), ("q",)), ("connect", "m", "back")), ("s",)))
    progs.append(("feedback", (("src", "a"), ("src", "st"), ("node", "z", ("zip", ()), ("a", "st")), ("node", "sm", ("starmap", "add"), ("z",)),
                               ("node", "q", ("unique", None, "ident", True), ("sm",)), ("connect", "q", "st")), ("a", "st")))
    progs.append(("feedback", (("src", "a"), ("src", "st"), ("node", "z", ("cl", (0,), "int"), ("a", "st")), ("node", "sm", ("starmap", "add"), ("z",)),
                               ("node", "q", ("unique", 2, "ident", True), ("sm",)), ("connect", "q", "st")), ("a", "st")))
    # feedback through every stateful node: union(s, back) -> X -> [tsum] -> map(nxt) -> unique -> back
    # (re-entrant update: the node is entered again while its own emission is still in progress)
    fb = [(("acc", "add", None, False), False), (("acc", "add", 0, False), False), (("acc", "accrs", 0, True), False),
          (("sw", 2, True), True), (("sw", 2, False), True), (("partition", 2, None), True), (("punique", 2, "parity", "last"), True),
          (("unique", 2, "parity", True), False), (("slice", 1, None, 2), False), (("filter", "odd"), False),
          (("partition", 1, None), True), (("sw", 1, True), True)]
    for spec, tup in fb:
        items = [("src", "s"), ("src", "back"), ("node", "u", ("union",), ("s", "back")), ("node", "x", spec, ("u",))]
        up = "x"
        if tup:
            items.append(("node", "t", ("map", "tsum"), ("x",)))
            up = "t"
        items += [("node", "m", ("map", "nxt"), (up,)), ("node", "q", ("unique", None, "ident", True), ("m",)), ("connect", "q", "back")]
        progs.append(("feedback", tuple(items), ("s",)))
    # feedback into one input of a join
    # (zip_latest is left out: while it drains its queue a re-entrant arrival legitimately changes
    # "the latest" value for the tuples still to be emitted; the batch reference would be too strict)
    for j in (("zip", ()), ("cl", None, "")):
        progs.append(("feedback", (("src", "a"), ("src", "st"), ("node", "z", j, ("a", "st")), ("node", "sm", ("starmap", "add"), ("z",)),
                                   ("node", "m", ("map", "nxt"), ("sm",)), ("node", "q", ("unique", None, "ident", True), ("m",)), ("connect", "q", "st")), ("a", "st")))
    return progs


def alphabet(prog, entries, mode, values):
    ops = []
    ks = (0, 1, 2) if mode == "md" else (1,)
    for e in entries:
        for x in values:
            for k in ks:
                ops.append(("e", e, x, k))
    for item in prog:
        if item[0] == "node" and item[2][0] == "collect":
            ops.append(("f", item[1]))
    return tuple(ops)


def _work(item):
    from .. import bind_repo
    bind_repo()
    shape, prog, entries, mode, depth, values = item
    r = seqbfs.bfs(prog, alphabet(prog, entries, mode, values), depth, mode)
    r["prog"] = prog
    r["shape"] = shape
    return r


def spec_str(prog, nid):
    for item in prog:
        if item[0] in ("node",) and item[1] == nid:
            sp = item[2]
            return sp[0], "%s(%s)" % (sp[0], ",".join(str(a) for a in sp[1:]))
        if item[0] == "src" and item[1] == nid:
            return "source", "source"
    return "?", "?"


KIND_NAME = dict(acc="accumulate", sw="sliding_window", punique="partition_unique", cl="combine_latest", zl="zip_latest")


def run_space(ctx, pid, mode, depth, values, thorough, engine_note, clauses_doc):
    progs = programs(thorough)
    if getattr(ctx, "only", None):
        progs = [p for p in progs if ctx.only in repr(p)]
    items = [(shape, prog, entries, mode,
              (depth if len(entries) < 3 else min(depth, 3)) + (2 if shape == "deep" else 0) - (1 if shape == "twin" and len(entries) < 3 else 0),
              (None, 1) if shape == "nonejoin" else ((0, 2, 1) if shape == "falsy" else (values if shape != "deep" else (1, 2, 3))))
             for shape, prog, entries in progs]
    rep = Report()
    tot = dict(states=0, transitions=0, runs=0, nontrivial=0)
    byshape = {}
    exhausted = True
    samples = []
    maxdepth = 0
    for r in ctx.pmap(_work, items, chunksize=8):
        for k in tot:
            tot[k] += r[k]
        exhausted = exhausted and r["exhausted"]
        maxdepth = max(maxdepth, r["depth"])
        b = byshape.setdefault(r["shape"], dict(programs=0, states=0, runs=0))
        b["programs"] += 1
        b["states"] += r["states"]
        b["runs"] += r["runs"]
        if len(samples) < 3 and r["shape"] in ("join+1", "feedback", "chain"):
            samples.append(dict(program=[list(map(str, it)) for it in r["prog"]], states=r["states"], runs=r["runs"]))
        for clause, nid, info, hist in r["violations"]:
            kind, s = spec_str(r["prog"], nid)
            site = KIND_NAME.get(kind, kind)
            detail = s
            rep.add(Finding(clause, site, detail,
                            dict(engine="seqbfs", mode=mode, program=[list(it) for it in r["prog"]], history=[list(h) for h in hist], observed=info),
                            "program %s history %s :: %s" % (" ; ".join("%s=%s%s" % (it[1], it[2], list(it[3])) if it[0] == "node" else "%s %s" % (it[0], it[1:]) for it in r["prog"]),
                                                            list(hist), str(info)[:300])))
    rep.coverage = dict(
        evaluations=tot["runs"], states=tot["states"], transitions=tot["transitions"], traces_validated_against_impl=tot["runs"],
        distinct_nontrivial=tot["nontrivial"],
        rule="programs from a typed node grammar (chains <= 2%s, fan-out in both attachment orders, fan-in of two entry points or two branches of one entry through every "
             "join variant followed by <= 1 node, 3-input joins, unique-guarded feedback) x BFS over input sequences (values %s at every entry point, flush for collect) to depth %d with "
             "canonical-state deduplication (reference state + snapshot of every real node's instance dictionary); non-trivial = states in which some node holds data"
             % (" (+ third node from a one-per-type menu)" if thorough else "", list(values), depth),
        samples=samples, programs=len(items), depth=depth, max_depth_reached=maxdepth, by_shape=byshape, mode=mode, clauses=clauses_doc)
    rep.exhaustive = exhausted
    rep.assumptions = ["user functions are stateless and total on the alphabet", engine_note]
    return rep


def check(ctx):
    T = ctx.thorough
    return run_space(ctx, "C01", "val", 6 if T else 5, (1, 2, 3), T,
                     "synchronous (loop-less) pipelines; elements emitted without metadata",
                     "exception, value, sibling-order")


def replay(ctx, rep):
    prog = tuple(_tup(it) for it in rep["program"])
    hist = tuple(_tup(h) for h in rep["history"])
    v = seqbfs.replay_history(prog, hist, rep.get("mode", "val"))
    if v:
        print("  replayed:", v)
    return v is None


def _tup(x):
    if isinstance(x, list):
        return tuple(_tup(y) for y in x)
    return x
