"""C19 — one event loop per pipeline; asynchronous pipelines never leave the caller's loop.

Engine K: exhaustive enumeration of construction configurations
  first node (plain Stream or any Source subclass) x asynchronous in {None, True, False}
  x loop in {none, current, other} x 0-2 fluent nodes (plain or loop-requiring, each with no /
  agreeing / conflicting explicit asynchronous= and loop= arguments) x joins (union, zip,
  combine_latest, zip_latest) of two pipelines that agree or of which one is unbound, with an
  explicit loop / mode on the join itself,
against a small reference (unification of (loop, mode) over the connected component).
Seams: `streamz.core.IOLoop` is rebound to a stand-in whose loops are inert objects (current(),
and every `IOLoop(make_current=False)` the library creates), `streamz.core.threading` to a
recorder of Thread creations; `streamz.core._io_loops` starts empty for every configuration.
"""
import io
import itertools
import queue as _queue

from ..common import Finding, Report

NEEDS_LOOP = ("buffer", "delay", "rate_limit", "timed_window", "timed_window_unique", "partition", "latest", "map_async",
              "dask_scatter", "dask_map", "partition_t")
PLAIN = ("map", "sink", "partition_unique", "pluck", "collect", "flatten", "slice", "accumulate", "filter", "sliding_window", "unique", "sink_to_list")
JOINS = ("union", "zip", "combine_latest", "zip_latest")


class FakeLoop:
    def __init__(self, name):
        self.name = name
        self.callbacks = []
        self.asyncio_loop = self

    def add_callback(self, cb, *a, **k):
        self.callbacks.append(cb)

    def call_later(self, *a, **k):
        self.callbacks.append(a)

    def create_task(self, coro):
        coro.close()

    def start(self):
        pass

    def __repr__(self):
        return "<loop %s>" % self.name


class Seams:
    """install inert loops + thread recorder into streamz.core for one configuration"""

    def __enter__(self):
        import streamz.core as sc
        self.sc = sc
        self.saved = (sc.IOLoop, sc.threading, list(sc._io_loops), sc._dask_default_client)
        seams = self
        self.current = FakeLoop("current")
        self.other = FakeLoop("other")
        self.created = []
        self.threads = []
        self.dask = None

        class FakeIOLoop:
            def __new__(cls, make_current=False):
                lp = FakeLoop("background#%d" % len(seams.created))
                seams.created.append(lp)
                return lp

            @staticmethod
            def current():
                return seams.current

        class FakeThread:
            def __init__(self, target=None, **k):
                self.target = target
                self.daemon = False

            def start(self):
                seams.threads.append(self.target)

        class FakeThreading:
            Thread = FakeThread
            local = self.saved[1].local
            Event = self.saved[1].Event
        self.sync_calls = []

        def fake_sync(loop, func, *args, **kwargs):
            # a blocking emit ends here (it would wait for the inert loop for ever): record where it wanted to run
            seams.sync_calls.append(loop)
            kwargs.pop("callback_timeout", None)
            return None
        self.saved_sync = sc.sync
        sc.sync = fake_sync
        sc.IOLoop = FakeIOLoop
        sc.threading = FakeThreading
        sc._io_loops[:] = []
        sc._dask_default_client = None
        return self

    def __exit__(self, *a):
        sc = self.sc
        sc.sync = self.saved_sync
        sc.IOLoop, sc.threading, loops, sc._dask_default_client = self.saved
        sc._io_loops[:] = loops
        from streamz.sinks import _global_sinks
        _global_sinks.clear()
        return False

    def enable_dask(self):
        """a default Dask client exists: pipelines that are not asynchronous use its loop instead of the shared one"""
        self.dask = FakeLoop("dask")
        client = type("FakeClient", (), {"loop": self.dask})()
        self.sc._dask_default_client = lambda: client

    def loop_arg(self, name):
        return {None: None, "current": self.current, "other": self.other}[name]


# ---- reference: unification of (loop, mode) over a connected component --------------------------
class Conflict(Exception):
    pass


class Comp:
    """a connected pipeline: loop in {None, 'current', 'other', 'background'}, mode in {None, True, False}"""

    def __init__(self):
        self.loop = None
        self.mode = None
        self.threads = 0

    def copy(self):
        c = Comp()
        c.loop, c.mode, c.threads = self.loop, self.mode, self.threads
        return c


def ref_add(comps, needs_loop, argA, argL, bg):
    """reference for creating one node over upstream components `comps` (list, may be empty).
    bg = dict(started=bool): the shared background loop.  Returns the merged component.
    Raises Conflict when an explicit argument contradicts the pipeline."""
    c = Comp()
    for u in comps:
        if u.loop is not None:
            if c.loop is None:
                c.loop = u.loop
        if u.mode is not None and c.mode is None:
            c.mode = u.mode      # component-level: a blocking pipeline stays blocking (its children are
            #                      created with asynchronous=None, which emit treats like False)
    # what the pipeline already fixes (any upstream), for conflict detection with explicit arguments
    for u in comps:
        if argL is not None and u.loop is not None and u.loop != argL:
            raise Conflict("loop")
        if argA is not None and u.mode is not None and u.mode is not argA:
            raise Conflict("mode")
    if argA is not None:
        c.mode = argA
    if argL is not None:
        c.loop = argL
    if needs_loop and c.loop is None and c.mode is None:
        c.mode = False
    if c.loop is None and c.mode is not None:
        if c.mode:
            c.loop = "current"
        elif bg.get("dask"):
            c.loop = "dask"          # the default client's loop: no thread of our own
        else:
            c.loop = "background"
            if not bg["started"]:
                bg["started"] = True
                bg["threads"] += 1
    return c


# ---- real construction ------------------------------------------------------------------------------
def make_first(kind, seams, A, L):
    from streamz import Stream
    kw = {}
    if A is not None:
        kw["asynchronous"] = A
    if L is not None:
        kw["loop"] = seams.loop_arg(L)
    if kind == "Stream":
        return Stream(**kw), False
    if kind == "from_periodic":
        return Stream.from_periodic(lambda: 1, 1.0, **kw), True
    if kind == "from_textfile":
        return Stream.from_textfile(io.StringIO(""), **kw), True
    if kind == "filenames":
        return Stream.filenames("/nonexistent/*.x", **kw), True
    if kind == "from_tcp":
        return Stream.from_tcp(59999, **kw), True
    if kind == "from_http_server":
        return Stream.from_http_server(59998, **kw), True
    if kind == "from_process":
        return Stream.from_process(["true"], **kw), True
    if kind == "from_kafka":
        return Stream.from_kafka(["t"], {"group.id": "g"}, **kw), True
    if kind == "from_kafka_batched":
        return Stream.from_kafka_batched("t", {"group.id": "g"}, **kw).upstream, True
    if kind == "from_iterable":
        return Stream.from_iterable([1], **kw), True
    if kind == "from_websocket":
        return Stream.from_websocket("localhost", 59997, **kw), True
    if kind == "from_q":
        import streamz.sources as ss
        return ss.from_q(_queue.Queue(), **kw), True
    if kind == "from_mqtt":
        return Stream.from_mqtt("localhost", 1883, "t", **kw), True
    raise KeyError(kind)


FIRSTS = ["Stream", "from_periodic", "from_textfile", "filenames", "from_tcp", "from_http_server", "from_process",
          "from_kafka", "from_kafka_batched", "from_iterable", "from_websocket", "from_q", "from_mqtt"]


def make_node(kind, ups, seams, A, L):
    import streamz.core as sc
    kw = {}
    if A is not None:
        kw["asynchronous"] = A
    if L is not None:
        kw["loop"] = seams.loop_arg(L)
    u = ups[0]
    if kind == "map":
        return sc.map(u, lambda x: x, **kw) if not kw else _with_kw(sc.map, (u, lambda x: x), kw)
    if kind == "filter":
        return _with_kw(sc.filter, (u, None), kw)
    if kind == "sliding_window":
        return sc.sliding_window(u, 2, **kw)
    if kind == "unique":
        return sc.unique(u, **kw)
    if kind == "buffer":
        return sc.buffer(u, 2, **kw)
    if kind == "delay":
        return sc.delay(u, 1, **kw)
    if kind == "rate_limit":
        return sc.rate_limit(u, 1, **kw)
    if kind == "timed_window":
        return sc.timed_window(u, 1, **kw)
    if kind == "timed_window_unique":
        return sc.timed_window_unique(u, 1, **kw)
    if kind == "partition":
        return sc.partition(u, 2, **kw)
    if kind == "latest":
        return sc.latest(u, **kw)
    if kind == "partition_t":
        return sc.partition(u, 2, timeout=1, **kw)
    if kind == "partition_unique":
        return sc.partition_unique(u, 2, **kw)
    if kind == "pluck":
        return sc.pluck(u, 0, **kw)
    if kind == "collect":
        return sc.collect(u, **kw)
    if kind == "accumulate":
        return sc.accumulate(u, lambda s, x: x, start=0)
    if kind == "flatten":
        return sc.flatten(u, **kw)
    if kind == "slice":
        return sc.slice(u, 0)      # (slice keeps only stream_name of its keyword arguments: nothing to conflict with)
    if kind == "map_async":
        async def f(x):
            return x
        return sc.map_async(u, f)   # map_async forwards only stream_name
    if kind == "dask_scatter":
        import streamz.dask as sd
        return sd.scatter(u, **kw)
    if kind == "dask_map":
        import streamz.dask as sd
        return sd.map(sd.scatter(u), lambda x: x)     # every DaskStream node needs a loop, not only scatter
    if kind == "sink":
        return u.sink(lambda x: None, **kw)
    if kind == "sink_to_list":
        u.sink_to_list()
        return list(u.downstreams)[-1]
    if kind == "union":
        return sc.union(*ups, **kw)
    if kind == "zip":
        return sc.zip(*ups, **kw)
    if kind == "combine_latest":
        return sc.combine_latest(*ups, **kw)
    if kind == "zip_latest":
        return sc.zip_latest(*ups, **kw)
    raise KeyError(kind)


def _with_kw(cls, args, kw):
    # map / filter pass unknown kwargs on to the user function: only stream_name is theirs
    return cls(*args)


ACCEPTS_KW = ("partition_unique", "pluck", "collect", "flatten", "partition_t", "sink", "dask_scatter", "sliding_window", "unique", "buffer", "delay", "rate_limit", "timed_window", "timed_window_unique",
              "partition", "latest", "union", "zip", "combine_latest", "zip_latest")


def observe(node, seams):
    lp = node.loop
    if lp is None:
        name = None
    elif lp is seams.current:
        name = "current"
    elif lp is seams.other:
        name = "other"
    elif lp is seams.dask:
        name = "dask"
    elif lp in seams.created:
        name = "background"
    else:
        name = repr(lp)
    return name, (True if node.asynchronous else (False if node.asynchronous is False else None))


def blocking(m):
    return not m


def run_config(cfg):
    """cfg = (first, A, L, steps) with steps = tuple of ('node', kind, A, L) | ('join', kind, (first2, A2, L2), A, L).
    Returns None or (clause, site, detail, info)."""
    first, A, L, steps = cfg
    with Seams() as seams:
        bg = dict(started=False, threads=0)
        if steps and steps[0][0] == "dask":
            seams.enable_dask()
            bg["dask"] = True
            steps = steps[1:]
        # ---- reference ----
        try:
            comp = ref_add([], first != "Stream", A, L, bg)
            want_raise = None
        except Conflict as e:
            return None
        try:
            node, _ = make_first(first, seams, A, L)
        except Exception as e:   # noqa
            return ("exception", first, "construct", dict(cfg=cfg, error=repr(e)[:200]))
        nodes = [node]
        v = compare(nodes, comp, seams, bg, cfg, first)
        if v:
            return v
        sibling = None
        for st in steps:
            if st[0] == "sibling":
                # a second branch of the (still unbound) first node, created before anything binds
                sibling = make_node("map", [nodes[0]], seams, None, None)
                nodes.append(sibling)
                continue
            if st[0] == "extend-sibling":
                try:
                    newc = ref_add([comp], st[1] in NEEDS_LOOP, None, None, bg)
                    ext = make_node(st[1], [sibling], seams, None, None)
                except Exception as e:   # noqa
                    return ("exception", st[1], "extend-sibling-branch", dict(cfg=cfg, error=repr(e)[:200]))
                comp = newc
                nodes.append(ext)
                v = compare(nodes, comp, seams, bg, cfg, st[1])
                if v:
                    return (v[0], v[1], "extend-sibling-branch", v[3])
                continue
            if st[0] == "run":
                # use the pipeline once (asynchronous pipelines only: a blocking emit would wait for the inert loop):
                # start the source / push one element; whatever gets scheduled now belongs on the component's loop too
                if comp.mode is not True:
                    # a blocking pipeline: emit at the newest node (created with asynchronous=None, which emit treats like
                    # False) must go through sync() on the component's loop, not run inline
                    if comp.loop is None or first != "Stream":
                        continue
                    n0 = len(seams.sync_calls)
                    try:
                        r = nodes[-1].emit(1)
                    except Exception as e:   # noqa
                        return ("exception", first, "run", dict(cfg=cfg, error=repr(e)[:200]))
                    got = [("current" if l is seams.current else "other" if l is seams.other else "dask" if l is seams.dask else
                            "background" if l in seams.created else repr(l)) for l in seams.sync_calls[n0:]]
                    if got != [comp.loop]:
                        return ("mode", steps[-2][1] if len(steps) > 1 else first, "blocking-emit-not-through-sync", dict(cfg=cfg, sync_on=got, want=[comp.loop]))
                    continue
                try:
                    if first != "Stream":
                        nodes[0].start()
                    else:
                        nodes[0].emit(1)
                except Exception as e:   # noqa
                    return ("exception", st[1] if len(st) > 1 else first, "run", dict(cfg=cfg, error=repr(e)[:200]))
                v = compare(nodes, comp, seams, bg, cfg, steps[-2][1] if len(steps) > 1 else first)
                if v:
                    return (v[0], v[1], "at-run-time", v[3])
                continue
            if st[0] == "join3":
                # a join over three pipelines, two of them still unbound: all three end up in one component, and a
                # loop-requiring node added to the *third* lands on the component's loop
                _, kind = st
                o1, _x = make_first("Stream", seams, None, None)
                o2, _x = make_first("Stream", seams, None, None)
                try:
                    newc = ref_add([comp, ref_add([], False, None, None, bg), ref_add([], False, None, None, bg)], False, None, None, bg)
                    tip = [n for n in nodes if n is not sibling][-1]
                    j = make_node(kind, [tip, o1, o2], seams, None, None)
                    comp = newc
                    nodes += [o1, o2, j]
                    v = compare(nodes, comp, seams, bg, cfg, kind)
                    if v:
                        return v
                    newc = ref_add([comp], True, None, None, bg)
                    ext = make_node("buffer", [o2], seams, None, None)
                except Exception as e:   # noqa
                    return ("exception", kind, "three-input-join", dict(cfg=cfg, error=repr(e)[:200]))
                comp = newc
                nodes.append(ext)
                v = compare(nodes, comp, seams, bg, cfg, kind)
                if v:
                    return (v[0], v[1], "extend-third-input", v[3])
                continue
            if st[0] == "node":
                _, kind, a, l = st
                if kind not in ACCEPTS_KW:
                    a = l = None
                try:
                    newc = ref_add([comp], kind in NEEDS_LOOP, a, l, bg)
                    want_raise = False
                except Conflict:
                    want_raise = True
                before = [observe(n, seams) for n in nodes]
                try:
                    tip = [n for n in nodes if n is not sibling][-1]
                    n2 = make_node(kind, [tip], seams, a, l)
                    raised = None
                except ValueError as e:
                    raised = e
                except Exception as e:   # noqa
                    return ("exception", kind, "construct", dict(cfg=cfg, error=repr(e)[:200]))
                if want_raise:
                    if raised is None:
                        return ("no-raise-on-conflict", kind, "explicit-%s" % ("loop" if l is not None and comp.loop not in (None, l) else "mode"), dict(cfg=cfg))
                    return None
                if raised is not None:
                    return ("spurious-raise", kind, "", dict(cfg=cfg, error=str(raised)))
                comp = newc
                nodes.append(n2)
            else:
                _, kind, (f2, a2, l2), a, l = st
                bg2 = bg
                try:
                    comp2 = ref_add([], f2 != "Stream", a2, l2, bg2)
                except Conflict:
                    return None
                other, _ = make_first(f2, seams, a2, l2)
                try:
                    newc = ref_add([comp, comp2], False, a, l, bg)
                    want_raise = False
                except Conflict:
                    want_raise = True     # an explicit argument contradicts one of the two pipelines
                if not want_raise:
                    # joining two pipelines that already conflict, without an explicit request that
                    # contradicts either, has no stated expectation
                    if comp.loop and comp2.loop and comp.loop != comp2.loop:
                        return None
                    if comp.mode is not None and comp2.mode is not None and bool(comp.mode) != bool(comp2.mode):
                        return None
                nodes.append(other)
                before = [observe(n, seams) for n in nodes]
                try:
                    j = make_node(kind, [nodes[-2], other], seams, a, l)
                    raised = None
                except ValueError as e:
                    raised = e
                if want_raise:
                    if raised is None:
                        return ("no-raise-on-conflict", kind, "explicit-%s" % ("loop" if l is not None else "mode"), dict(cfg=cfg))
                    return None
                if raised is not None:
                    return ("spurious-raise", kind, "", dict(cfg=cfg, error=str(raised)))
                comp = newc
                nodes.append(j)
                v = compare(nodes, comp, seams, bg, cfg, st[1])
                if v:
                    return v
                # the pipeline that was joined in now belongs to the component: a loop-requiring
                # node added to *it* must land on the component's loop as well
                try:
                    newc = ref_add([comp], True, None, None, bg)
                    ext = make_node("buffer", [other], seams, None, None)
                except Exception as e:   # noqa
                    return ("exception", kind, "extend-joined-pipeline", dict(cfg=cfg, error=repr(e)[:200]))
                comp = newc
                nodes.append(ext)
                v = compare(nodes, comp, seams, bg, cfg, kind)
                if v:
                    return (v[0], v[1], "extend-joined-pipeline", v[3])
                continue
            v = compare(nodes, comp, seams, bg, cfg, st[1])
            if v:
                return v
        return None


def consistent(obs):
    loops = set(l for l, m in obs if l is not None)
    modes = set(bool(m) for l, m in obs if m is not None)
    return len(loops) <= 1 and len(modes) <= 1


consistent_pair = consistent


def compare(nodes, comp, seams, bg, cfg, site):
    obs = [observe(n, seams) for n in nodes]
    if not consistent(obs):
        return ("component-split", site, "", dict(cfg=cfg, observed=obs))
    newest = obs[-1]
    # loop
    if comp.loop is not None and newest[0] != comp.loop:
        det = "asynchronous-true" if comp.mode else ""
        return ("loop", site, det, dict(cfg=cfg, got=newest, want=(comp.loop, comp.mode)))
    if comp.loop is None and newest[0] is not None:
        return ("loop", site, "unexpected-binding", dict(cfg=cfg, got=newest, want=(comp.loop, comp.mode)))
    if bool(newest[1]) != bool(comp.mode):
        return ("mode", site, "", dict(cfg=cfg, got=newest, want=(comp.loop, comp.mode)))
    # every node of the component that has a loop must have *the* loop
    for o in obs:
        if o[0] is not None and comp.loop is not None and o[0] != comp.loop:
            return ("component-split", site, "", dict(cfg=cfg, observed=obs))
    # callbacks scheduled while building (forwarding coroutines of buffer, delay, timed windows, latest, ...) belong on
    # the component's loop and on no other
    for name, lp in [("current", seams.current), ("other", seams.other), ("dask", seams.dask)] + [("background", x) for x in seams.created]:
        if lp is not None and lp.callbacks and comp.loop is not None and name != comp.loop:
            return ("callback-on-foreign-loop", site, "asynchronous-true" if comp.mode else "",
                    dict(cfg=cfg, scheduled_on=name, component_loop=comp.loop))
    if len(seams.threads) != bg["threads"]:
        return ("thread-started", site, "asynchronous-true" if comp.mode else "", dict(cfg=cfg, threads=len(seams.threads), want=bg["threads"]))
    if len(seams.created) > 1:
        return ("thread-started", site, "second-background-loop", dict(cfg=cfg))
    return None


def configs(thorough):
    AS = (None, True, False)
    LS = (None, "current", "other")
    kinds = PLAIN[:7] + NEEDS_LOOP if not thorough else PLAIN + NEEDS_LOOP
    args = [(None, None), (True, None), (False, None), (None, "current"), (None, "other")]
    if thorough:
        args += [(True, "current"), (False, "other")]
    for first in FIRSTS:
        for A in AS:
            for L in LS:
                yield (first, A, L, ())
                for k in kinds:
                    for a, l in args:
                        yield (first, A, L, (("node", k, a, l),))
                if first in ("Stream", "from_periodic", "from_iterable", "from_textfile") or thorough:
                    for k1 in (("map", "buffer", "timed_window", "latest") if not thorough else kinds):
                        for k2 in kinds:
                            for a, l in args:
                                yield (first, A, L, (("node", k1, None, None), ("node", k2, a, l)))
                if first == "Stream" and A is None and L is None:
                    # branch first, bind one branch late, then extend the other branch
                    for k in kinds:
                        for a, l in args:
                            for k2 in ("buffer", "map", "timed_window"):
                                yield (first, A, L, (("sibling",), ("node", k, a, l), ("extend-sibling", k2)))
                                yield (first, A, L, (("sibling",), ("node", "map", None, None), ("node", k, a, l), ("extend-sibling", k2)))
                if first == "Stream" and A is not True:
                    # blocking pipelines: emit at a child node
                    for k in ("map", "buffer", "partition_unique", "latest"):
                        yield (first, A, L, (("node", k, None, None), ("run",)))
                        yield (first, A, L, (("node", "map", None, None), ("node", k, None, None), ("run",)))
                if first in ("Stream", "from_periodic", "from_iterable", "from_textfile", "filenames") and A is True:
                    yield (first, A, L, (("run",),))
                    for k in ("map", "partition_t", "latest", "buffer", "map_async", "timed_window", "rate_limit", "delay"):
                        yield (first, A, L, (("node", k, None, None), ("run",)))
                if first in ("Stream", "from_periodic", "from_iterable"):
                    # a default Dask client exists in the process
                    yield (first, A, L, (("dask",),))
                    for k in kinds:
                        for a, l in args:
                            yield (first, A, L, (("dask",), ("node", k, a, l)))
                if first in ("Stream", "from_periodic", "from_iterable"):
                    for j in JOINS:
                        yield (first, A, L, (("join3", j),))
                        yield (first, A, L, (("node", "buffer", None, None), ("join3", j)))
                if first in ("Stream", "from_periodic"):
                    for j in JOINS:
                        for f2 in ("Stream", "from_iterable"):
                            for A2 in AS:
                                for L2 in LS:
                                    for a, l in args:
                                        yield (first, A, L, (("join", j, (f2, A2, L2), a, l),))
                                        yield (first, A, L, (("node", "buffer", None, None), ("join", j, (f2, A2, L2), a, l)))


def _work(chunk):
    from .. import bind_repo
    bind_repo()
    import logging
    logging.disable(logging.CRITICAL)
    out = []
    n = 0
    outcomes = set()
    for cfg in chunk:
        try:
            v = run_config(cfg)
        except Exception as e:   # noqa: never on the unchanged tree; reported, not a harness crash
            v = ("unexpected-behaviour", cfg[0], "", dict(cfg=cfg, error="%s: %s" % (type(e).__name__, str(e)[:200])))
        n += 1
        if v:
            out.append((v, cfg))
        outcomes.add(hash(cfg[:3]))
    logging.disable(logging.NOTSET)
    return n, out, len(outcomes)


def check(ctx):
    cfgs = list(configs(ctx.thorough))
    chunks = [cfgs[i:i + 500] for i in range(0, len(cfgs), 500)]
    rep = Report()
    total = 0
    for n, viols, _ in ctx.pmap(_work, chunks):
        total += n
        for (clause, site, detail, info), cfg in viols:
            rep.add(Finding(clause, site, detail, dict(engine="config", config=_js(cfg), observed=info),
                            "config=%r :: %s" % (cfg, str(info)[:300])))
    distinct = len(set((c[0], c[1], c[2], tuple(s[:2] for s in c[3])) for c in cfgs))
    rep.coverage = dict(evaluations=total, states=len(cfgs), transitions=sum(1 + len(c[3]) for c in cfgs), traces_validated_against_impl=total,
                        distinct_nontrivial=distinct,
                        rule="full product: first node (plain Stream + %d Source subclasses) x asynchronous {None,True,False} x loop {none,current,other} x 0-2 fluent nodes "
                             "(plain / loop-requiring, explicit arguments none / agreeing / conflicting) x joins of two pipelines; every node construction is a transition; "
                             "distinct = distinct (first, asynchronous, loop, node kinds) shapes" % (len(FIRSTS) - 1),
                        samples=[_js(cfgs[7]), _js(cfgs[len(cfgs) // 2]), _js(cfgs[-1])], configurations=len(cfgs))
    # run-time half: the batched Kafka source creates checkpoint counters while it runs; on the virtual loop, with the
    # process-wide background loop replaced by a reporting stand-in, every schedule of a short scenario
    from .. import spar
    kjobs = [((consumer, 2, 1, None, False, "earliest", (), (0,), (0, 0), 2.0, "sentinel"), 0) for consumer in ("sync", "direct")]
    # the same with a source that is not declared asynchronous but given the loop explicitly
    kjobs += [(("sync", 2, 1, None, False, "earliest", (), (0,), (0, 0), 2.0, "sentinel+blocking"), 0)]
    kres = spar.run_scenarios(ctx, "vf.props.c09", kjobs)
    krep = spar.report_from(ctx, "vf.props.c09", kres, bounds=[0], rule="")
    for f in krep.findings:
        if f.clause in ("callback-on-foreign-loop", "background-error", "unexpected-behaviour", spar.SHARED):
            rep.add(f)
    rep.coverage["evaluations"] += krep.coverage["evaluations"]
    rep.coverage["traces_validated_against_impl"] += krep.coverage["evaluations"]
    rep.coverage["runtime_half"] = dict(scenarios=len(kjobs), executions=krep.coverage["evaluations"],
                                        rule="from_kafka_batched (fake broker) on the virtual loop, every placement of produce / tick / crash events; "
                                             "any callback handed to the shared background loop is reported")
    rep.assumptions = ["event loops are inert stand-ins (streamz.core.IOLoop seam): only binding and thread creation are observed, callbacks are not run",
                       "mode compared by truthiness (a child of an asynchronous=False node is created with None, which emit treats identically)",
                       "joining two pipelines that already conflict has no stated expectation and is not generated"]
    return rep


def _js(cfg):
    return [cfg[0], cfg[1], cfg[2], [list(s) if not isinstance(s, tuple) else [list(x) if isinstance(x, tuple) else x for x in s] for s in cfg[3]]]


def _tup(x):
    if isinstance(x, list):
        return tuple(_tup(y) for y in x)
    return x


def replay(ctx, rep):
    if str(rep.get("engine", "")).startswith("sched"):
        from . import c09
        return c09.replay(ctx, rep)
    c = rep["config"]
    cfg = (c[0], c[1], c[2], _tup(c[3]))
    v = run_config(cfg)
    if v:
        print("  replayed:", v)
    return v is None
