"""setup_cmd: there is nothing to build (pure Python against the /repo working tree);
this verifies that the harness owns nondeterminism before any verdict is trusted.

 (i)   the same schedule run twice yields identical logs and fingerprints;
 (ii)  a canary pipeline (buffer -> rate_limit -> sink) never advances unless stepped;
 (iii) during an execution library code never reads the wall clock, starts a thread
       or sleeps for real (tripwires on time.time / Thread.start / asyncio.sleep>0).
"""
import os
import sys


def main():
    if os.environ.get("PYTHONHASHSEED") != "0":
        env = dict(os.environ)
        env["PYTHONHASHSEED"] = "0"
        os.execve(sys.executable, [sys.executable, "-m", "vf.selftest"], env)
    import warnings
    warnings.filterwarnings("ignore")
    from . import bind_repo
    bind_repo()
    import threading
    import time
    import asyncio
    from .sched import Scenario, Exec, explore

    class Canary(Scenario):
        horizon = 3.0

        def build(self):
            from streamz import Stream
            self.src = Stream(asynchronous=True, loop=self.ioloop)
            self.src.buffer(2).rate_limit(1.0).sink(self.make_sink_fn("future", "S"))
            self.add_producer("p", self.src, [1, 2, 3], mode="await")

    trip = []
    real_time, real_start, real_sleep = time.time, threading.Thread.start, asyncio.sleep

    def t_time():
        f = sys._getframe(1)
        mod = f.f_globals.get("__name__", "")
        if mod.startswith("streamz") or mod.startswith("tornado"):
            trip.append(("time.time", mod, f.f_lineno))
        return real_time()

    def t_start(self):
        trip.append(("Thread.start", repr(self)))
        return real_start(self)

    def t_sleep(d, result=None):
        if d > 0:
            trip.append(("asyncio.sleep", d))
        return real_sleep(d, result)

    time.time = t_time
    threading.Thread.start = t_start
    asyncio.sleep = t_sleep
    try:
        # (ii) canary: building and emitting without stepping delivers nothing
        c = Canary()
        from .vloop import Env
        with Env() as env:
            c.env, c.loop, c.ioloop = env, env.loop, env.ioloop
            c.build()
            c.producers[0].emit_next()
            assert not [e for e in c.log if e[0] == "in"], "canary advanced without being stepped"
            env.loop.drain()
            assert [e for e in c.log if e[0] == "in"], "canary did not advance when stepped"
            t0 = env.loop.time()
            assert t0 == 0.0
        # (i) determinism of replay
        _, left = explore(Canary, 1, budget=7)
        pre, labs = left[-1]
        a = Exec(Canary, pre, labs).run()
        b = Exec(Canary, pre, labs).run()
        assert len(pre) > 1
        assert a.scen.trace == b.scen.trace and a.scen.log == b.scen.log and a.fps == b.fps, "replay not deterministic"
        st, left = explore(Canary, 1)
        st2, _ = explore(Canary, 1)
        assert not left and st.executions == st2.executions and st.states == st2.states
        assert st.executions > 10 and len(st.outcomes) > 3, (st.executions, len(st.outcomes))
        assert not st.viol, st.viol
    finally:
        time.time, threading.Thread.start, asyncio.sleep = real_time, real_start, real_sleep
    if trip:
        print("HARNESS ERROR: tripwires hit: %r" % trip[:5])
        return 2
    print("selftest ok: canary executions=%d states=%d outcomes=%d; replay deterministic; no tripwire"
          % (st.executions, len(st.states), len(st.outcomes)))
    return 0


if __name__ == "__main__":
    sys.exit(main())
