"""Engine S: stateless, deviation-bounded exhaustive schedule exploration on the
virtual loop (iterative context bounding, Musuvathi & Qadeer).

An *execution* builds a fresh scenario on a fresh VLoop, follows a prefix of
recorded choices (checking that the menu offered at each point is the recorded
one) and then takes the default (first) choice to completion, followed by a
deterministic closing phase.  `explore` enumerates every execution whose number
of deviations (environment event chosen while the ready queue is non-empty)
is <= bound.  No state-hash pruning: fingerprints are only counted.
"""
import collections
import time as _time

from .vloop import Env, HarnessError, Livelock

MAX_STEPS = 3000


class Violation:
    __slots__ = ("clause", "site", "detail", "info")

    def __init__(self, clause, site="", detail="", info=None):
        self.clause = clause
        self.site = site
        self.detail = detail
        self.info = info

    @property
    def sig(self):
        return (self.clause, self.site, self.detail)

    def __repr__(self):
        return "Violation(%s/%s[%s] %r)" % (self.clause, self.site, self.detail, self.info)


class StopExecution(Exception):
    """raised by a scenario when the state is unusable after a violation"""


class Gate:
    """harness-owned completion: resolved only by an explorer event"""

    def __init__(self, loop, gid, label):
        self.fut = loop.create_future()
        self.gid = gid
        self.label = label
        self.state = "pending"   # pending | done | failed
        self.t_created = loop.time()
        self.t_resolved = None

    def resolve(self, loop, exc=None):
        assert self.state == "pending"
        self.t_resolved = loop.time()
        if exc is None:
            self.state = "done"
            self.fut.set_result(None)
        else:
            self.state = "failed"
            self.fut.set_exception(exc)


class Injected(Exception):
    """exception injected by the harness (gate failure / user-function failure)"""


class Scenario:
    """Base class.  Subclasses implement build(); may override events(), on_*."""
    horizon = 4.0           # tick choices are offered up to this virtual time
    close_intervals = 6.0   # closing phase runs the clock this far past the last event
    fail_gates = False      # offer fail(g) besides done(g)
    free_events = ()        # labels of caller-side events that never count as a deviation
    spin_proxy = True

    def __init__(self, **params):
        self.params = params
        self.trace = []
        self.gates = []
        self.producers = []
        self.log = []            # scenario-level observation log (tuples)
        self.violations = []
        self.closing = False

    # --- set by Exec -------------------------------------------------------------
    env = None
    loop = None
    ioloop = None

    # --- helpers -----------------------------------------------------------------
    def gate(self, label):
        g = Gate(self.loop, len(self.gates), label)
        self.gates.append(g)
        return g

    def keep_delivered(self, name, x):
        """what a consumer was handed stays what it was: a batch (list / dict) the node goes on using and changing
        after the hand-off shows up as a difference between the object and its frozen copy at the end"""
        if isinstance(x, (list, dict, set)):
            if not hasattr(self, "_kept"):
                self._kept = []
            self._kept.append((name, x, _freeze(x)))

    def alias_violations(self):
        out = []
        for name, obj, frozen in getattr(self, "_kept", ()):
            if _freeze(obj) != frozen:
                out.append(Violation("delivered-object-changed-later", self.site(), "", dict(consumer=name, delivered=frozen, now=_freeze(obj))))
                break
        return out

    def pending_gates(self):
        return [g for g in self.gates if g.state == "pending"]

    def add_producer(self, name, stream, items, mode="await", metadata=None):
        p = Producer(self, name, stream, items, mode, metadata)
        self.producers.append(p)
        return p

    def clock_marks(self, times):
        for t in times:
            self.loop.call_at(t, _noop)

    def make_sink_fn(self, kind, name):
        """consumer of `kind` in {'sync','future','native','gen'} logging to self.log"""
        scen = self

        def begin(x):
            scen.log.append(("in", name, scen.loop.time(), _freeze(x)))
            scen.keep_delivered(name, x)
            return scen.gate("%s:%r" % (name, _freeze(x)))

        def end(x):
            scen.log.append(("out", name, scen.loop.time(), _freeze(x)))

        if kind == "sync":
            def f(x):
                scen.keep_delivered(name, x)
                scen.log.append(("in", name, scen.loop.time(), _freeze(x)))
                scen.log.append(("out", name, scen.loop.time(), _freeze(x)))
            return f
        if kind == "future":
            def f(x):
                g = begin(x)
                out = scen.loop.create_future()

                def done(fut):
                    if fut.exception() is not None:
                        out.set_exception(fut.exception())
                    else:
                        end(x)
                        out.set_result(None)
                g.fut.add_done_callback(done)
                return out
            return f
        if kind == "native":
            # a consumer that hands back a native coroutine object (awaitable exactly once);
            # the hand-off is logged when the consumer is called, like for the other kinds
            def f(x):
                g = begin(x)

                async def body():
                    await g.fut
                    end(x)
                return body()
            return f
        if kind == "custom":
            # a consumer handing back its own awaitable type (an object with __await__, neither a Future nor a coroutine)
            def f(x):
                g = begin(x)

                class _Aw:
                    def __await__(self_inner):
                        yield from g.fut.__await__()
                        end(x)
                return _Aw()
            return f
        if kind == "value":
            # a consumer whose function returns a plain value (not None, not awaitable): nothing to wait for
            def f(x):
                scen.keep_delivered(name, x)
                scen.log.append(("in", name, scen.loop.time(), _freeze(x)))
                scen.log.append(("out", name, scen.loop.time(), _freeze(x)))
                return 5
            return f
        if kind == "alt":
            # a consumer that is still busy with every first piece and already finished with every second one
            calls = [0]
            pending = self.make_sink_fn("future", name)
            finished = self.make_sink_fn("done", name)

            def f(x):
                calls[0] += 1
                return pending(x) if calls[0] % 2 == 1 else finished(x)
            return f
        if kind == "done":
            # a consumer that hands back an awaitable which has already completed
            def f(x):
                scen.log.append(("in", name, scen.loop.time(), _freeze(x)))
                scen.log.append(("out", name, scen.loop.time(), _freeze(x)))
                out = scen.loop.create_future()
                out.set_result(None)
                return out
            return f
        if kind == "gen":
            from tornado import gen

            @gen.coroutine
            def f(x):
                g = begin(x)
                yield g.fut
                end(x)
            return f
        raise KeyError(kind)

    # --- to override ---------------------------------------------------------------
    def build(self):
        raise NotImplementedError

    def extra_events(self):
        return []

    def events(self):
        evs = []
        for p in self.producers:
            if p.enabled():
                evs.append(("emit(%s)" % p.name, p.emit_next))
        for g in self.pending_gates():
            evs.append(("done(%s)" % g.label, lambda g=g: g.resolve(self.loop)))
            if self.fail_gates:
                evs.append(("fail(%s)" % g.label, lambda g=g: g.resolve(self.loop, Injected(g.label))))
        return evs + self.extra_events()

    def check_step(self):
        return None

    def check_final(self):
        return None

    def outcome(self):
        return tuple(self.log)

    def fingerprint(self):
        return (self.loop.time(), len(self.loop._ready), len(self.loop._scheduled),
                tuple(self.log), tuple(g.state for g in self.gates),
                tuple((p.pos, p.inflight()) for p in self.producers))

    def expected_background(self, err):
        """True if a background error record was caused by harness injection"""
        exc = err[3]
        return isinstance(exc, Injected)

    def closing_hook(self):
        """called once at the start of the closing phase"""

    def on_emit_done(self, producer, idx, x):
        pass

    def on_emit_raised(self, producer, idx, x, exc):
        pass

    def site(self):
        return self.params.get("site", type(self).__name__)

    def finish(self):
        pass

    def closing_events(self):
        """remaining producer items are emitted in the closing phase too"""
        for p in self.producers:
            if p.enabled():
                return ("emit(%s)" % p.name, p.emit_next)
        return None


def _noop():
    pass


def _freeze(x):
    if isinstance(x, (list, tuple)):
        return tuple(_freeze(y) for y in x)
    if isinstance(x, dict):
        return tuple(sorted((k, _freeze(v)) for k, v in x.items()))
    return x


class Producer:
    def __init__(self, scen, name, stream, items, mode, metadata):
        self.scen = scen
        self.name = name
        self.stream = stream
        self.items = list(items)
        self.mode = mode
        self.metadata = metadata      # callable(item, idx) -> metadata list or None
        self.pos = 0
        self.pending = []             # (idx, awaitable future)
        self.completed = []           # (idx, time) emit awaitable done
        self.raised = []              # (idx, exc)
        self._unseen = []             # (idx, item, future) completion not yet recorded

    def inflight(self):
        return sum(1 for _, f in self.pending if not f.done())

    def enabled(self):
        if self.pos >= len(self.items):
            return False
        if self.mode == "await":
            return self.inflight() == 0
        return True

    def emit_next(self):
        scen = self.scen
        i = self.pos
        x = self.items[i]
        self.pos += 1
        md = self.metadata(x, i) if self.metadata else None
        scen.log.append(("emit", self.name, scen.loop.time(), _freeze(x)))
        try:
            if md is not None:
                r = self.stream.emit(x, metadata=md)
            else:
                r = self.stream.emit(x)
        except BaseException as e:   # noqa
            if isinstance(e, (HarnessError, KeyboardInterrupt, SystemExit)):
                raise
            self.raised.append((i, e))
            scen.log.append(("emit-raised", self.name, scen.loop.time(), _freeze(x), type(e).__name__))
            scen.on_emit_raised(self, i, x, e)
            return
        if r is None:
            if getattr(self.stream, "asynchronous", None):
                # `await stream.emit(x)` is the documented use of an asynchronous stream: emit must hand back something awaitable
                scen.violations.append(Violation("emit-not-awaitable", scen.site(), "", dict(element=_freeze(x), returned=None)))
            scen.log.append(("emit-done", self.name, scen.loop.time(), _freeze(x)))
            self.completed.append((i, scen.loop.time()))
            scen.on_emit_done(self, i, x)
            return
        import asyncio
        fut = asyncio.ensure_future(r) if not hasattr(r, "add_done_callback") else r
        self.pending.append((i, fut))
        self._unseen.append((i, x, fut))

    def poll(self):
        """Record emit awaitables that completed during the last action.  Polled by the
        explorer right after every action, so the completion is observed at the moment it
        happens (a done-callback would run an iteration later, after other things changed)."""
        scen = self.scen
        still = []
        for i, x, f in self._unseen:
            if not f.done():
                still.append((i, x, f))
                continue
            exc = f.exception() if not f.cancelled() else None
            if exc is not None:
                self.raised.append((i, exc))
                scen.log.append(("emit-raised", self.name, scen.loop.time(), _freeze(x), type(exc).__name__))
                scen.on_emit_raised(self, i, x, exc)
            else:
                scen.log.append(("emit-done", self.name, scen.loop.time(), _freeze(x)))
                self.completed.append((i, scen.loop.time()))
                scen.on_emit_done(self, i, x)
        self._unseen = still


class Exec:
    """one execution: prefix of choices, then defaults, then closing phase"""

    def __init__(self, factory, prefix=(), labels=None, want_fp=True):
        self.factory = factory
        self.prefix = prefix
        self.labels = labels
        self.points = []     # (labels tuple, chosen idx, ready flag, devs before)
        self.violations = []
        self.fps = []
        self.want_fp = want_fp
        self.scen = None
        self.steps = 0

    def _add(self, v):
        if v is None:
            return
        if isinstance(v, Violation):
            v = [v]
        for x in v:
            self.violations.append(x)

    def run(self):
        scen = self.factory()
        self.scen = scen
        with Env(spin_proxy=scen.spin_proxy) as env:
            scen.env = env
            scen.loop = loop = env.loop
            scen.ioloop = env.ioloop
            try:
                scen.build()
                self._main(scen, loop)
                self._closing(scen, loop)
                self._add(scen.check_final())
                self._add(scen.alias_violations())
            except StopExecution:
                pass
            except Livelock as e:
                self._add(Violation("livelock", scen.site(), "", str(e)))
            except HarnessError:
                raise
            except Exception as e:   # noqa
                # the library did something the scenario's bookkeeping cannot digest (never happens on
                # the unchanged tree): reported as a violation with the exception as its detail, and
                # confirmed by replay like any other
                import traceback
                self._add(Violation("unexpected-behaviour", scen.site(), type(e).__name__, traceback.format_exc()[-600:]))
            env.collect_unretrieved()
            for err in env.background_errors():
                if not scen.expected_background(err):
                    self._add(Violation("background-error", scen.site(), err[1], err[2]))
            self._add(scen.violations)
            scen.finish()
        return self

    def _main(self, scen, loop):
        devs = 0
        i = 0
        while True:
            ready = loop.has_ready()
            due = loop.due()
            menu = []
            if ready or due:
                menu.append(("run", loop.run_iteration))
            evs = scen.events()
            menu += evs
            if not ready and not due:
                nd = loop.next_deadline()
                if nd is not None and nd <= scen.horizon:
                    menu.append(("tick", loop.advance))
            if not menu:
                break
            if i < len(self.prefix):
                c = self.prefix[i]
                if c >= len(menu) or (self.labels is not None and menu[c][0] != self.labels[i]):
                    raise HarnessError("replay divergence at step %d: want %r, menu %r" % (
                        i, self.labels[i] if self.labels else c, [m[0] for m in menu]))
            else:
                c = 0
            label = menu[c][0]
            self.points.append((tuple(m[0] for m in menu), c, ready, devs, scen.free_events))
            if ready and label != "run" and label not in scen.free_events:
                devs += 1
            scen.trace.append(label)
            if label != "run" and label != "tick":
                loop.note_progress()
            menu[c][1]()
            for pr in scen.producers:
                pr.poll()
            self._add(scen.check_step())
            if self.want_fp:
                self.fps.append(hash(scen.fingerprint()))
            i += 1
            if i > MAX_STEPS:
                raise Livelock("more than %d steps" % MAX_STEPS)
        self.steps = i

    def _closing(self, scen, loop):
        """deterministic: resolve remaining gates in creation order, keep the clock
        running for close_intervals so that buffered / rate-limited data can flush"""
        scen.closing = True
        scen.closing_hook()
        limit = loop.time() + scen.close_intervals
        n = 0
        while True:
            n += 1
            if n > MAX_STEPS:
                raise Livelock("closing phase does not quiesce")
            for pr in scen.producers:
                pr.poll()
            if loop.has_ready() or loop.due():
                loop.run_iteration()
                for pr in scen.producers:
                    pr.poll()
                self._add(scen.check_step())
                continue
            pg = scen.pending_gates()
            if pg:
                loop.note_progress()
                pg[0].resolve(loop)
                scen.trace.append("close:done(%s)" % pg[0].label)
                continue
            ev = scen.closing_events()
            if ev:
                loop.note_progress()
                scen.trace.append("close:" + ev[0])
                ev[1]()
                continue
            nd = loop.next_deadline()
            if nd is not None and nd <= limit:
                loop.advance()
                continue
            break


class Stats:
    def __init__(self):
        self.executions = 0
        self.transitions = 0
        self.states = set()
        self.outcomes = set()
        self.viol = collections.OrderedDict()   # sig -> (choices labels, info, count)
        self.viol_count = collections.Counter()
        self.max_depth = 0
        self.deviating = 0
        self.capped = False
        self.samples = []

    def merge(self, o):
        self.executions += o.executions
        self.transitions += o.transitions
        self.states |= o.states
        self.outcomes |= o.outcomes
        for k, v in o.viol.items():
            if k not in self.viol or len(v[0]) < len(self.viol[k][0]):
                self.viol[k] = v
        self.viol_count.update(o.viol_count)
        self.max_depth = max(self.max_depth, o.max_depth)
        self.deviating += o.deviating
        self.capped = self.capped or o.capped
        if len(self.samples) < 3:
            self.samples += o.samples[: 3 - len(self.samples)]


def explore(factory, bound, start=((), ()), budget=None, stats=None, on_exec=None):
    """Explore every execution extending `start` = (prefix, labels) with <= bound
    deviations.  Returns (stats, leftover work items) — leftover is non-empty only
    when `budget` executions were used up."""
    st = stats or Stats()
    stack = [start]
    n = 0
    while stack:
        if budget is not None and n >= budget:
            return st, stack
        prefix, labels = stack.pop()
        try:
            x = Exec(factory, prefix, labels).run()
        except HarnessError as e:
            e.victim = (prefix, labels)
            raise
        if on_exec is not None:
            on_exec([p[1] for p in x.points])
        n += 1
        st.executions += 1
        st.transitions += len(x.points) - len(prefix)
        st.states.update(x.fps[len(prefix):] if prefix else x.fps)
        st.max_depth = max(st.max_depth, len(x.points))
        if x.points and x.points[-1][3] > 0:
            st.deviating += 1
        if x.violations:
            seen = set()
            for v in x.violations:
                if v.sig in seen:
                    continue
                seen.add(v.sig)
                st.viol_count[v.sig] += 1
                tr = list(x.scen.trace)
                if v.sig not in st.viol or len(tr) < len(st.viol[v.sig][0]):
                    st.viol[v.sig] = (tr, repr(v.info)[:600], [p[1] for p in x.points])
        else:
            st.outcomes.add(hash(x.scen.outcome()))
        if len(st.samples) < 2:
            st.samples.append(list(x.scen.trace))
        choices = [p[1] for p in x.points]
        labs = [p[0][p[1]] for p in x.points]
        for i in range(len(prefix), len(x.points)):
            menu, c, ready, devs, free = x.points[i]
            for alt in range(len(menu)):
                if alt == c:
                    continue
                cost = devs + (1 if (ready and menu[alt] != "run" and menu[alt] not in free) else 0)
                if cost > bound:
                    continue
                stack.append((tuple(choices[:i]) + (alt,), tuple(labs[:i]) + (menu[alt],)))
    return st, []


def replay(factory, choices, labels=None):
    """Run exactly one execution following `choices` (then defaults)."""
    return Exec(factory, tuple(choices), tuple(labels) if labels else None).run()
