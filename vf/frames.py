"""Engine F — tables x splits against pandas (DESIGN.md 2.4).

Exhaustive enumeration, never sampling: every table of R rows over a tiny alphabet, every
composition of its rows into consecutive batches with up to E empty batches inserted at any
position (first and last included), each run on a fresh real streamz pipeline
(`Stream()` + `streamz.dataframe.DataFrame(stream, example=...)`, synchronous) and compared
after every batch with pandas on the corresponding prefix / window (pandas is the reference
model; oracle values are cached by prefix).

Vocabulary
----------
family   row alphabet: a table is a tuple of indices into ALPH[family]; each row is (k, x) and
         the frame has columns k (object), x (float) and y = YMAP[x] (float; a second numeric
         column with a different NaN pattern).
grid     None (integer index 0..R-1) | 's' | 'ns': DatetimeIndex BASE + cumsum(incs) * unit with
         incs in {0,1,2}^(R-1) (first row at BASE: only differences are ever used).
split    tuple of batch sizes (zeros = empty batches) summing to R.
spec     one aggregation: how to build it on a streaming frame, the pandas oracle, the compare mode.
suite    (spec keys, family, grid, {R: E}) — the bounded space the spec is enumerated over.
"""
import importlib
import itertools
import logging
import os
import time
from functools import lru_cache

import numpy as np
import pandas as pd

from .common import Finding, Report

NAN = float("nan")
TOL = 1e-9

ALPH = {
    "v": (("a", 1.0), ("a", 2.0), ("a", NAN)),
    "k": (("a", 1.0), ("b", 1.0)),
    "kv": (("a", 1.0), ("a", 2.0), ("a", NAN), ("b", 1.0), ("b", 2.0), ("b", NAN)),
    "kv3": (("a", 1.0), ("b", 2.0), ("a", NAN)),
    "one": (("a", 1.0),),
    "vz": (("a", -1.0), ("a", 1.0), ("a", 2.0)),      # sums that pass through zero while the count does not
    "inc": (("a", 1.0), ("a", 2.0), ("a", 4.0)),      # no NaN, values far enough apart to tell weights apart
}
UNIT = {"s": 10 ** 9, "ns": 1}
BASE = pd.Timestamp("2000-01-01").value
TARGET_RUNS_PER_CHUNK = 500


def ymap(x):
    if x != x:
        return 1.0
    return 2.0 if x == 1.0 else NAN


# ----------------------------------------------------------------------------------------
# enumeration
# ----------------------------------------------------------------------------------------

@lru_cache(maxsize=None)
def splits(R, E):
    """all compositions of R rows into consecutive non-empty batches, with e <= E empty batches
    inserted at any multiset of positions; ordered by (number of batches, tuple)"""
    out = []
    for cuts in itertools.product((0, 1), repeat=max(R - 1, 0)):
        parts = []
        start = 0
        for i, c in enumerate(cuts):
            if c:
                parts.append(i + 1 - start)
                start = i + 1
        parts.append(R - start)
        m = len(parts)
        for e in range(E + 1):
            for pos in itertools.combinations_with_replacement(range(m + 1), e):
                sp = []
                for j in range(m + 1):
                    sp.extend([0] * pos.count(j))
                    if j < m:
                        sp.append(parts[j])
                out.append(tuple(sp))
    out = sorted(set(out), key=lambda s: (len(s), s))
    return tuple(out)


def tables(fam, R):
    return itertools.product(range(len(ALPH[fam])), repeat=R)


def time_patterns(grid, R):
    if grid is None:
        return (None,)
    return tuple(itertools.product((0, 1, 2), repeat=R - 1))


def chunk_size(fam, grid, R):
    """tables per work item; a function of the space only (never of the spec or of E) so that
    chunk ids identify the same set of cases for every spec"""
    per_table = len(time_patterns(grid, R)) * len(splits(R, 2))
    return max(1, TARGET_RUNS_PER_CHUNK // per_table)


def rows_of(fam, table):
    return [ALPH[fam][i] for i in table]


def times_of(grid, incs, R):
    if grid is None:
        return None
    t = [BASE]
    for d in incs:
        t.append(t[-1] + d * UNIT[grid])
    return t[:R]


def make_frame(fam, table, grid=None, incs=None):
    rows = rows_of(fam, table)
    ks = np.empty(len(rows), dtype=object)
    ks[:] = [r[0] for r in rows]
    d = pd.DataFrame({"k": pd.Series(ks, dtype=object),
                      "x": np.array([r[1] for r in rows], dtype=float),
                      "y": np.array([ymap(r[1]) for r in rows], dtype=float)})
    if grid is not None:
        d.index = pd.DatetimeIndex(np.array(times_of(grid, incs, len(rows)), dtype="int64").view("M8[ns]"))
    return d


def jrows(rows):
    return [[k, jnum(x)] for k, x in rows]


def jnum(x):
    """JSON-able number: NaN -> 'nan'"""
    if x is None:
        return None
    if isinstance(x, (bool, np.bool_)):
        return bool(x)
    try:
        f = float(x)
    except Exception:
        return str(x)
    if f != f:
        return "nan"
    if f in (float("inf"), float("-inf")):
        return str(f)
    f = round(f, 9) + 0.0
    return int(f) if f == int(f) and abs(f) < 1e15 else f


# ----------------------------------------------------------------------------------------
# specs
# ----------------------------------------------------------------------------------------

class NoObligation:
    def __repr__(self):
        return "NOOB"


NOOB = NoObligation()


class Spec:
    """mode:
      prefix    after batch k: got == oracle(concat(batches[:k+1]))       (hi >= 1)
      window    after batch k: got == oracle(window rows of the prefix)    (win = ('n', N) | ('t', 'Ns'))
      perbatch  after batch k: got == oracle(batch k)                      (every batch, empty ones too)
      concat    at the end: concat(emitted) == oracle(full table)          (one pass)
      last      after batch k: got == oracle(full table).iloc[hi-1]        (one value per batch)
    oracle may return NOOB (e.g. the filtered prefix has no row): nothing is demanded there.
    """

    def __init__(self, key, site, mode, sbuild, oracle=None, win=None, zero_ok=False,
                 classify=None, cols=("x",), rank=None):
        self.key = key
        self.site = site
        self.mode = mode
        self.sbuild = sbuild
        self.oracle = oracle or sbuild
        self.win = win
        self.zero_ok = zero_ok
        self.classify = classify
        self.cols = cols
        self.rank = rank if rank is not None else (1 if "[" in key.split(")")[-1] else 0)   # variants lose ties for the example
        self.winT = pd.Timedelta(win[1]) if win and win[0] == "t" else None


class Suite:
    def __init__(self, keys, fam, bounds, grid=None):
        self.keys = list(keys)
        self.fam = fam
        self.grid = grid
        self.bounds = dict(bounds)      # R -> E


def get_specs(modname):
    mod = importlib.import_module(modname)
    return mod.SPECS


# ----------------------------------------------------------------------------------------
# comparison
# ----------------------------------------------------------------------------------------

def is_scalar(v):
    return isinstance(v, (int, float, np.number, np.bool_, bool)) and not isinstance(v, (pd.Series, pd.DataFrame))


def _num(arr):
    try:
        return np.asarray(arr, dtype=float)
    except Exception:
        return None


def _eq_values(g, w):
    """g, w: 1-d arrays of equal length; numeric with tolerance and NaN == NaN, else object equality"""
    gn, wn = _num(g), _num(w)
    if gn is not None and wn is not None:
        return bool(np.allclose(gn, wn, rtol=0, atol=TOL, equal_nan=True))
    if gn is not None or wn is not None:
        return False
    for a, b in zip(list(g), list(w)):
        if a is b:
            continue
        an = isinstance(a, float) and a != a
        bn = isinstance(b, float) and b != b
        if an and bn:
            continue
        if a != b:
            return False
    return True


def _labels(idx):
    return [x.value if isinstance(x, pd.Timestamp) else x for x in idx]


def short(v, limit=8):
    """short JSON-able description of a value"""
    if v is None:
        return None
    if isinstance(v, str):
        return v
    if is_scalar(v):
        return jnum(v)
    if isinstance(v, pd.Series):
        items = list(zip(_labels(v.index), list(v.values)))[:limit]
        return {"series": [[_lab(k), jnum(x)] for k, x in items], "len": len(v)}
    if isinstance(v, pd.DataFrame):
        return {"frame": {str(c): [jnum(x) if not isinstance(x, str) else x for x in list(v[c].values)[:limit]] for c in v.columns},
                "index": [_lab(k) for k in _labels(v.index)[:limit]], "len": len(v)}
    if isinstance(v, tuple):
        return [short(a) for a in v]
    return str(type(v).__name__)


def _lab(k):
    if isinstance(k, (int, np.integer)):
        k = int(k)
        return k - BASE if abs(k - BASE) < 10 ** 12 else k
    if isinstance(k, (float, np.floating)):
        return jnum(k)
    return str(k)


def diff(got, want, zero_ok=False, squeeze=False):
    """None if got matches want, else (clause, observed)"""
    if squeeze:
        if isinstance(got, pd.DataFrame):
            if len(got) != 1:
                return "type", {"got": "frame with %d rows" % len(got), "want": short(want)}
            got = got.iloc[0]
        elif isinstance(got, pd.Series) and is_scalar(want):
            if len(got) != 1:
                return "type", {"got": "series with %d rows" % len(got), "want": short(want)}
            got = got.iloc[0]
    if is_scalar(want):
        if not is_scalar(got):
            return "type", {"got": type(got).__name__, "want": short(want)}
        g, w = float(got), float(want)
        if (g != g and w != w) or abs(g - w) <= TOL:
            return None
        return "value", {"got": jnum(g), "want": jnum(w)}
    if isinstance(want, pd.Series):
        if not isinstance(got, pd.Series):
            return "type", {"got": type(got).__name__, "want": "Series"}
        g = got.sort_index(kind="stable")
        w = want.sort_index(kind="stable")
        if zero_ok and len(g):
            keep = (np.asarray(g.values) != 0) | np.asarray(g.index.isin(w.index))
            g = g[keep]
        gi, wi = _labels(g.index), _labels(w.index)
        if gi != wi:
            return "index", {"got": short(g), "want": short(w)}
        if not _eq_values(g.values, w.values):
            return "value", {"got": short(g), "want": short(w)}
        return None
    if isinstance(want, pd.DataFrame):
        if not isinstance(got, pd.DataFrame):
            return "type", {"got": type(got).__name__, "want": "DataFrame"}
        g = got.sort_index(kind="stable")
        w = want.sort_index(kind="stable")
        if sorted(map(str, g.columns)) != sorted(map(str, w.columns)):
            return "index", {"got_columns": [str(c) for c in g.columns], "want_columns": [str(c) for c in w.columns]}
        if _labels(g.index) != _labels(w.index):
            return "index", {"got": short(g), "want": short(w)}
        for c in w.columns:
            if not _eq_values(g[c].values, w[c].values):
                return "value", {"column": str(c), "got": short(g[c]), "want": short(w[c])}
        return None
    raise TypeError("oracle produced %r" % type(want))


def canon(v):
    """canonical string of an emitted value / an accumulator state (floats rounded to 1e-9)"""
    if v is None:
        return "None"
    if is_scalar(v):
        return repr(jnum(v))
    if isinstance(v, pd.Series):
        return "S[%s|%s]" % (_labels(v.index), _cvals(v.values))
    if isinstance(v, pd.DataFrame):
        return "F[%s|%s|%s]" % (_labels(v.index), [str(c) for c in v.columns], [_cvals(v[c].values) for c in v.columns])
    if isinstance(v, pd.Index):
        return "I[%s]" % (_labels(v),)
    if isinstance(v, np.ndarray):
        return "A[%s]" % _cvals(v)
    if isinstance(v, dict):
        return "{%s}" % ",".join("%s:%s" % (k, canon(v[k])) for k in sorted(v))
    if isinstance(v, (list, tuple)) or type(v).__name__ == "deque":
        return "(%s)" % ",".join(canon(a) for a in v)
    if isinstance(v, str):
        return repr(v)
    return "<%s>" % type(v).__name__


def _cvals(arr):
    n = _num(arr)
    if n is not None:
        return str((np.round(n, 9) + 0.0).tolist())
    return str(list(arr))


# ----------------------------------------------------------------------------------------
# one case
# ----------------------------------------------------------------------------------------

class Env:
    """one (family, table, time pattern): the frame, its example, the oracle cache"""

    def __init__(self, fam, table, grid, incs):
        self.fam = fam
        self.table = tuple(table)
        self.grid = grid
        self.incs = tuple(incs) if incs is not None else None
        self.full = make_frame(fam, table, grid, incs)
        self.example = self.full.iloc[:1]
        self.example_last = self.full.iloc[-1:]     # for resumed pipelines: not older than any row held in a state
        self.R = len(table)
        self.cache = {}

    def rowkey(self, hi):
        return (self.fam, self.table[:hi], self.grid, self.incs[:max(hi - 1, 0)] if self.incs is not None else None)

    def want(self, spec, lo, hi, bounds=None):
        mode = spec.mode
        if mode == "split":
            # the expected value depends on where the batch boundaries were (an expression mixing the
            # current batch with a running aggregate): oracle(prefix, ((lo, hi), ...))
            if hi == 0:
                return NOOB
            key = (spec.key, tuple(bounds))
            if key not in self.cache:
                self.cache[key] = spec.oracle(self.full.iloc[:hi], tuple(bounds))
            return self.cache[key]
        if mode in ("concat", "last"):
            key = (spec.key, "full")
        elif mode == "perbatch":
            key = (spec.key, lo, hi)
        else:
            key = (spec.key, hi)
        if key in self.cache:
            return self.cache[key]
        full = self.full
        if mode in ("concat", "last"):
            w = spec.oracle(full)
        elif mode == "perbatch":
            w = spec.oracle(full.iloc[lo:hi])
        elif hi == 0:
            w = NOOB
        elif mode == "prefix":
            w = spec.oracle(full.iloc[:hi])
        elif mode == "window":
            pre = full.iloc[:hi]
            if spec.win[0] == "n":
                view = pre.iloc[-spec.win[1]:]
            else:
                view = pre[pre.index > pre.index.max() - spec.winT]
            w = spec.oracle(view)
        else:
            raise ValueError(mode)
        self.cache[key] = w
        return w


class Fail:
    def __init__(self, clause, step, observed, pos=None, got=None):
        self.clause = clause
        self.step = step          # batch index at which the clause failed (-1: construction)
        self.observed = observed
        self.pos = pos            # row position (concat mode)
        self.got = got            # the emitted object (stays in the worker; used by bug models)


class CaseResult:
    __slots__ = ("fail", "transitions", "empty_exc", "states", "trace")

    def __init__(self):
        self.fail = None
        self.transitions = 0
        self.empty_exc = 0
        self.states = []
        self.trace = None


def _exc_desc(e):
    return {"raised": type(e).__name__, "message": str(e)[:120]}


def _release_pipelines():
    """sink_to_list() registers every sink in streamz.sinks._global_sinks for good: the pipelines of earlier cases (and
    everything they emitted) would stay alive for the whole run (gigabytes per worker in the thorough tier)"""
    from streamz.sinks import _global_sinks
    _global_sinks.clear()


def run_case(spec, env, split, want_trace=False):
    """run one (table, split) through a fresh pipeline; first failing clause only"""
    from streamz import Stream
    from streamz.dataframe import DataFrame
    _release_pipelines()
    res = CaseResult()
    trace = [] if want_trace else None
    mode = spec.mode
    try:
        s = Stream()
        sdf = DataFrame(s, example=env.example)
        L = spec.sbuild(sdf).stream.sink_to_list()
    except Exception as e:
        res.fail = Fail("exception", -1, dict(_exc_desc(e), at="construction"))
        return res
    full = env.full
    lo = 0
    skey = spec.key
    bounds = []
    emitted = []
    for k, n in enumerate(split):
        hi = lo + n
        bounds.append((lo, hi))
        want = env.want(spec, lo, hi, bounds)
        if mode == "last":
            want = want.iloc[hi - 1] if hi > 0 else NOOB
        obliged = (want is not NOOB) if mode != "concat" else hi > 0
        before = len(L)
        try:
            s.emit(full.iloc[lo:hi])
        except Exception as e:
            res.transitions += 1
            if obliged:
                res.fail = Fail("exception", k, _exc_desc(e))
                if trace is not None:
                    trace.append([n, "raised " + type(e).__name__])
                break
            res.empty_exc += 1
            if trace is not None:
                trace.append([n, "raised %s (nothing demanded)" % type(e).__name__])
            lo = hi
            continue
        res.transitions += 1
        got = L[-1] if len(L) > before else None
        cgot = canon(got)
        if got is not None:
            emitted.append((got, cgot))
        res.states.append(hash((skey, env.rowkey(hi), cgot)))
        if trace is not None:
            trace.append([n, short(got), None if (want is NOOB or mode == "concat") else short(want)])
        if mode != "concat" and obliged:
            if len(L) == before:
                res.fail = Fail("type", k, {"got": "nothing emitted", "want": short(want)})
                break
            try:
                d = diff(got, want, zero_ok=spec.zero_ok, squeeze=(mode == "last"))
            except Exception as e:   # noqa
                # the emitted object cannot even be compared with the expected one (wrong kind of object altogether)
                d = ("type", {"got": "%s (%s while comparing)" % (type(got).__name__, type(e).__name__), "want": short(want)})
            if d is not None:
                res.fail = Fail(d[0], k, d[1], got=got)
                break
        lo = hi
    if res.fail is None:
        # an emitted object is the caller's: the pipeline going on must not change it afterwards (a result that
        # aliases the running state would)
        for i, (obj, c0) in enumerate(emitted):
            if canon(obj) != c0:
                res.fail = Fail("emitted-object-changed-later", len(split) - 1, {"emission": i, "when_emitted": c0[:120], "now": canon(obj)[:120]})
                break
    if mode == "concat" and res.fail is None:
        res.fail = _concat_check(spec, env, split, L)
    res.trace = trace
    return res


def _concat_check(spec, env, split, L):
    want = env.want(spec, 0, env.R)
    odd = [x for x in L if x is not None and not isinstance(x, (pd.Series, pd.DataFrame))]
    if odd:
        # what was emitted is not a frame / series at all (e.g. a (state, result) tuple): a violation, not a harness problem
        return Fail("type", len(split) - 1, {"got": "%s emitted" % type(odd[0]).__name__, "want": short(want)})
    parts = [x for x in L if x is not None and len(x)]
    if parts:
        got = pd.concat(parts)
    else:
        got = want.iloc[:0]
    d = diff(got, want)
    if d is None:
        return None
    clause, obs = d
    # localise: first row position at which the concatenation differs from the one-pass result
    pos = None
    try:
        n = min(len(got), len(want))
        for i in range(n):
            if diff(got.iloc[i:i + 1], want.iloc[i:i + 1]) is not None:
                pos = i
                break
        if pos is None:
            pos = n
    except Exception:
        pos = 0
    step = 0
    acc = 0
    for k, n in enumerate(split):
        acc += n
        if pos < acc:
            step = k
            break
    else:
        step = len(split) - 1
    return Fail(clause, step, obs, pos=pos, got=got)


# ----------------------------------------------------------------------------------------
# named predicates of the failing input
# ----------------------------------------------------------------------------------------

class Info:
    """what a classifier sees: the input and where it failed"""

    def __init__(self, spec, env, split, fail):
        self.spec = spec
        self.env = env
        self.fail = fail
        self.rows = rows_of(env.fam, env.table)
        self.times = times_of(env.grid, env.incs, env.R)
        self.grid = env.grid
        self.split = tuple(split)
        self.step = fail.step
        self.pos = fail.pos
        self.clause = fail.clause
        self.bounds = []
        lo = 0
        for n in split:
            self.bounds.append((lo, lo + n))
            lo += n
        self.hi = self.bounds[fail.step][1] if fail.step >= 0 else 0

    def col(self, c, i):
        x = self.rows[i][1]
        return x if c == "x" else ymap(x)


def p_empty_first_batch(i):
    return len(i.split) > 0 and i.split[0] == 0


def p_all_nan_prefix(i):
    """some checked column is NaN in every row of the (non-empty) prefix"""
    return i.hi > 0 and any(all(i.col(c, r) != i.col(c, r) for r in range(i.hi)) for c in i.spec.cols)


def p_nan_in_prefix(i):
    return any(i.col(c, r) != i.col(c, r) for r in range(i.hi) for c in i.spec.cols)


def p_nan_at_batch_end(i):
    """a non-empty batch before the one holding the failing row ends in NaN (in a checked column)"""
    for (lo, hi) in i.bounds[:max(i.step, 0)]:
        if hi > lo and any(i.col(c, hi - 1) != i.col(c, hi - 1) for c in i.spec.cols):
            return True
    return False


def p_empty_batch_before(i):
    return any(n == 0 for n in i.split[:i.step + 1])


def p_batch_gt_window(i):
    w = i.spec.win
    return bool(w) and w[0] == "n" and any(n > w[1] for n in i.split[:i.step + 1])


def p_row_at_window_edge(i):
    """time window T: at some step j <= failing step, one batch holds both a row that expires
    (index < newest_j - T + 1ns) and a row at exactly newest_j - T + 1ns"""
    w = i.spec.win
    if not w or w[0] != "t" or i.times is None:
        return False
    T = pd.Timedelta(w[1]).value
    for j in range(i.step + 1):
        hi = i.bounds[j][1]
        if hi == 0:
            continue
        mn = i.times[hi - 1] - T + 1
        for (lo, h2) in i.bounds[:j + 1]:
            ts = i.times[lo:h2]
            if any(t < mn for t in ts) and any(t == mn for t in ts):
                return True
    return False


def inclusive_cut_model(i):
    """bug model of the recorded C07 defect: the time-window deque when expiring rows are cut with the
    inclusive `.loc[:newest-T+1ns]`.  Returns the row positions the implementation still holds after
    the failing step, or 'raises' if the deque runs empty (IndexError)."""
    T = pd.Timedelta(i.spec.win[1]).value
    dq = []
    for j in range(i.step + 1):
        lo, hi = i.bounds[j]
        if hi > lo:
            dq.append(list(range(lo, hi)))
        if not dq:
            continue
        mx = max(i.times[p] for b in dq for p in b)
        mn = mx - T + 1
        while True:
            if not dq:
                return "raises"
            if min(i.times[p] for p in dq[0]) >= mn:
                break
            cut = [p for p in dq[0] if i.times[p] <= mn]
            dq[0] = dq[0][len(cut):]
            if not dq[0]:
                dq.pop(0)
    return [p for b in dq for p in b]


def p_explained_by_inclusive_cut(i):
    """the observation is exactly what the inclusive-cut model predicts (and the input has a row at the
    window edge next to an expiring row in one batch)"""
    w = i.spec.win
    if not w or w[0] != "t" or i.times is None or not p_row_at_window_edge(i):
        return False
    model = inclusive_cut_model(i)
    if i.clause == "exception":
        return model == "raises" and i.fail.observed.get("raised") == "IndexError"
    if model == "raises" or i.fail.got is None:
        return False
    try:
        want_model = i.spec.oracle(i.env.full.iloc[model])
        return diff(i.fail.got, want_model, zero_ok=i.spec.zero_ok) is None
    except Exception:
        return False


def p_key_vanishes(i):
    ks = [r[0] for r in i.rows[:i.hi]]
    w = i.spec.win
    if not ks or not w:
        return False
    if w[0] == "n":
        inside = set(ks[-w[1]:])
    else:
        T = pd.Timedelta(w[1]).value
        inside = set(k for k, t in zip(ks, i.times[:i.hi]) if t > i.times[i.hi - 1] - T)
    return bool(set(ks) - inside)


GENERIC = (("empty-first-batch", p_empty_first_batch),
           ("empty-batch-before-failure", p_empty_batch_before),
           ("batch-larger-than-window", p_batch_gt_window),
           ("key-left-window", p_key_vanishes),
           ("nan-in-prefix", p_nan_in_prefix))


def classify(spec, env, split, fail):
    info = Info(spec, env, split, fail)
    if fail.step < 0:
        return "at-construction"
    if spec.classify is not None:
        try:
            d = spec.classify(info)
        except Exception:     # noqa
            # the detail only separates recorded findings from everything else: a classifier that cannot digest this
            # failure must not hide it (it stays a violation, with the generic detail)
            d = None
        if d:
            return d
    return "other"


# ----------------------------------------------------------------------------------------
# work items
# ----------------------------------------------------------------------------------------

def case_key(spec, env, split):
    return (env.R, len(split), spec.rank, env.table, env.incs or (), tuple(split))


def is_nontrivial(env, split, rows):
    if any(n == 0 for n in split) or any(n >= 2 for n in split):
        return True
    if any(x != x for _, x in rows):
        return True
    ks = [k for k, _ in rows]
    return len(set(ks)) < len(ks)


def _replay_dict(modname, spec, env, split, fail):
    return dict(engine="frames", module=modname, spec=spec.key, family=env.fam, table=list(env.table),
                rows=jrows(rows_of(env.fam, env.table)), grid=env.grid,
                incs=list(env.incs) if env.incs is not None else None,
                times=[t - BASE for t in times_of(env.grid, env.incs, env.R)] if env.grid else None,
                split=list(split), step=fail.step, observed=fail.observed)


def _summary(spec, env, split, fail):
    return "%s rows=%s%s batches=%s step=%d: %s" % (
        spec.key, jrows(rows_of(env.fam, env.table)),
        (" t+%s(%s)" % ([t - BASE for t in times_of(env.grid, env.incs, env.R)], env.grid)) if env.grid else "",
        list(split), fail.step, fail.observed)


def run_item(item):
    """one work item: one spec over a chunk of tables (all time patterns, all splits)"""
    logging.disable(logging.CRITICAL)
    modname, key, fam, grid, R, E, chunk_id, tabs = item
    spec = get_specs(modname)[key]
    t0 = time.time()
    out = dict(spec=key, space=(fam, grid, R, chunk_id), E=E, runs=0, transitions=0, cases=0,
               nontrivial=0, empty_exc=0, states=set(), findings={}, sample=None, failing_runs=0)
    sp = splits(R, E)
    for table in tabs:
        rows = rows_of(fam, table)
        for incs in time_patterns(grid, R):
            env = Env(fam, table, grid, incs)
            for split in sp:
                want_trace = out["sample"] is None and chunk_id == 0 and len(split) >= 2 and is_nontrivial(env, split, rows)
                try:
                    r = run_case(spec, env, split, want_trace=want_trace)
                except Exception as e:   # noqa
                    # the library produced something the comparison code cannot digest (never happens on the unchanged tree):
                    # reported as a violation with the exception as its detail, like engine S does
                    r = CaseResult()
                    r.fail = Fail("unexpected-behaviour", 0, {"while": "running / comparing the case", "error": "%s: %s" % (type(e).__name__, str(e)[:160])})
                out["runs"] += 1
                out["cases"] += 1
                out["transitions"] += r.transitions
                out["empty_exc"] += r.empty_exc
                out["states"].update(r.states)
                if is_nontrivial(env, split, rows):
                    out["nontrivial"] += 1
                if want_trace and r.fail is None:
                    out["sample"] = dict(aggregation=key, rows=jrows(rows), split=list(split),
                                         times=[t - BASE for t in times_of(grid, incs, R)] if grid else None,
                                         per_batch_size_emitted_expected=r.trace)
                if r.fail is not None:
                    out["failing_runs"] += 1
                    detail = classify(spec, env, split, r.fail)
                    sig = (r.fail.clause, spec.site, detail)
                    ck = case_key(spec, env, split)
                    cur = out["findings"].get(sig)
                    if cur is None:
                        out["findings"][sig] = [1, ck, _replay_dict(modname, spec, env, split, r.fail),
                                                _summary(spec, env, split, r.fail)]
                    else:
                        cur[0] += 1
                        if ck < cur[1]:
                            cur[1] = ck
                            cur[2] = _replay_dict(modname, spec, env, split, r.fail)
                            cur[3] = _summary(spec, env, split, r.fail)
    out["secs"] = time.time() - t0
    return out


def expand(modname, suites, only=None):
    items = []
    for su in suites:
        for R, E in sorted(su.bounds.items()):
            cs = chunk_size(su.fam, su.grid, R)
            tabs = list(tables(su.fam, R))
            chunks = [tabs[i:i + cs] for i in range(0, len(tabs), cs)]
            for key in su.keys:
                if only and only not in key:
                    continue
                for cid, ch in enumerate(chunks):
                    items.append((modname, key, su.fam, su.grid, R, E, cid, ch))
    return items


def replay_case(rep):
    """re-run exactly the recorded case; returns the Fail (or None if it passes now)"""
    logging.disable(logging.CRITICAL)
    spec = get_specs(rep["module"])[rep["spec"]]
    env = Env(rep["family"], tuple(rep["table"]), rep.get("grid"), rep.get("incs"))
    r = run_case(spec, env, tuple(rep["split"]))
    if r.fail is None:
        return None, None
    return r.fail, classify(spec, env, tuple(rep["split"]), r.fail)


def check(ctx, modname, suites, rule, assumptions, notes=(), worker=None, replayer=None):
    """run all suites, merge, build the Report"""
    worker = worker or run_item
    replayer = replayer or replay_case
    from .vloop import HarnessError
    specs = get_specs(modname)
    items = expand(modname, suites, getattr(ctx, "only", None))
    # heavy items first would defeat the seed permutation; pmap shuffles by seed
    rep = Report()
    tot = dict(runs=0, transitions=0, empty_exc=0, failing_runs=0)
    per_spec = {}
    states = set()
    spaces = {}
    found = {}
    samples = {}
    secs = 0.0
    for out in ctx.pmap(worker, items):
        for k in tot:
            tot[k] += out[k]
        secs += out["secs"]
        ps = per_spec.setdefault(out["spec"], dict(runs=0, failing_runs=0, secs=0.0))
        ps["runs"] += out["runs"]
        ps["secs"] += out["secs"]
        ps["failing_runs"] += out["failing_runs"]
        states |= out["states"]
        cur = spaces.get(out["space"])
        if cur is None or out["E"] > cur[0]:
            spaces[out["space"]] = (out["E"], out["cases"], out["nontrivial"])
        elif out["E"] == cur[0] and (out["cases"], out["nontrivial"]) != cur[1:]:
            raise HarnessError("case enumeration differs between specs for space %r" % (out["space"],))
        if out["sample"] is not None:
            k = (out["spec"], out["space"])
            samples[k] = out["sample"]
        for sig, (cnt, ck, rp, summ) in out["findings"].items():
            cur = found.get(sig)
            if cur is None:
                found[sig] = [cnt, ck, rp, summ]
            else:
                cur[0] += cnt
                if (ck, rp["spec"]) < (cur[1], cur[2]["spec"]):
                    cur[1], cur[2], cur[3] = ck, rp, summ
    for sig in sorted(found):
        cnt, ck, rp, summ = found[sig]
        # re-run the minimal example twice: identical observation or the harness is at fault
        for _ in range(2):
            f2, d2 = replayer(rp)
            if f2 is None or (f2.clause, specs[rp["spec"]].site, d2) != sig or f2.observed != rp["observed"]:
                raise HarnessError("violation %r did not reproduce identically on re-run: %r" % (sig, rp))
        rep.add(Finding(sig[0], sig[1], sig[2], replay=rp, summary=summ, count=cnt, observed=rp["observed"]))
    if os.environ.get("VF_TIMING"):
        for k in sorted(per_spec, key=lambda k: -per_spec[k]["secs"])[:int(os.environ["VF_TIMING"])]:
            print("  timing %-50s runs=%7d secs=%8.1f ms/run=%.2f" % (k, per_spec[k]["runs"], per_spec[k]["secs"], 1e3 * per_spec[k]["secs"] / max(per_spec[k]["runs"], 1)))
    cases = sum(v[1] for v in spaces.values())
    nontrivial = sum(v[2] for v in spaces.values())
    skeys = sorted(samples, key=repr)
    pick = [skeys[i] for i in sorted(set([0, len(skeys) // 2, len(skeys) - 1]))] if skeys else []
    bounds = {}
    for su in suites:
        for R, E in su.bounds.items():
            b = bounds.setdefault("%s%s" % (su.fam, "/" + su.grid if su.grid else ""), {})
            b[R] = max(E, b.get(R, 0))
    rep.coverage = dict(
        evaluations=tot["runs"], states=len(states), transitions=tot["transitions"],
        traces_validated_against_impl=tot["runs"], distinct_nontrivial=nontrivial,
        distinct_cases=cases, rule=rule, samples=[samples[k] for k in pick],
        exhaustive=True, rows=max(max(su.bounds) for su in suites),
        empties=max(max(su.bounds.values()) for su in suites),
        bounds_rows_to_empties_per_family={k: {str(r): e for r, e in sorted(v.items())} for k, v in sorted(bounds.items())},
        aggregations=len(per_spec), per_aggregation_runs={k: per_spec[k]["runs"] for k in sorted(per_spec)},
        failing_runs_per_aggregation={k: per_spec[k]["failing_runs"] for k in sorted(per_spec) if per_spec[k]["failing_runs"]},
        empty_prefix_exceptions=tot["empty_exc"], failing_runs=tot["failing_runs"],
        work_items=len(items), core_seconds=round(secs, 1))
    rep.assumptions = list(assumptions)
    rep.notes = list(notes)
    return rep


def replay(ctx, rep):
    f, d = (replay_resume_case if rep.get("mode") == "resume" else replay_case)(rep)
    if f is None:
        return True
    print("  replayed: %s/%s[%s] step=%d observed=%s" % (f.clause, get_specs(rep["module"])[rep["spec"]].site, d, f.step, f.observed))
    return False


# ========================================================================================
# C12: checkpoint / resume (differential: uninterrupted run vs pipelines seeded with start=state)
# ========================================================================================

class RSpec:
    """make(sdf, state, fresh) wires the aggregation on a streaming frame (fresh: API default start,
    else start=state) and returns a reader: () -> list of (state, result), one per emitted batch"""

    def __init__(self, key, site, make):
        self.key = key
        self.site = site
        self.make = make
        self.rank = 0


def with_state(build):
    """aggregation built with with_state=True: the stream carries (state, result) tuples"""
    def make(sdf, st, fresh):
        L = build(sdf, st, fresh).stream.sink_to_list()
        return lambda: [(e[0], e[1]) for e in L]
    return make


class _NoState:
    def __repr__(self):
        return "NOSTATE"


NOSTATE = _NoState()


def with_state_then_plain(build):
    """the uninterrupted run exposes its state (with_state=True); the resumed pipelines are given start=state
    only and emit plain results: only results are compared there"""
    def make(sdf, st, fresh):
        L = build(sdf, st, fresh).stream.sink_to_list()
        if fresh:
            return lambda: [(e[0], e[1]) for e in L]
        return lambda: [(NOSTATE, e) for e in L]
    return make


def state_is_result(build):
    """sum / count / groupby sum / count: the emitted value is the state"""
    def make(sdf, st, fresh):
        L = build(sdf, st, fresh).stream.sink_to_list()
        return lambda: [(e, e) for e in L]
    return make


class _Entry:
    __slots__ = ("ok", "state", "result", "cstate", "cresult", "exc")


def _run_pipeline(spec, env, split, first, state, fresh):
    """feed batches split[first:] to a fresh pipeline; one _Entry per batch"""
    from streamz import Stream
    from streamz.dataframe import DataFrame
    s = Stream()
    sdf = DataFrame(s, example=env.example if fresh else env.example_last)
    get = spec.make(sdf, state, fresh)
    lo = sum(split[:first])
    out = []
    seen = 0
    for n in split[first:]:
        hi = lo + n
        e = _Entry()
        try:
            s.emit(env.full.iloc[lo:hi])
            got = get()
            if len(got) != seen + 1:
                e.ok, e.exc = False, "emitted %d values" % (len(got) - seen)
                seen = len(got)
            else:
                seen += 1
                e.ok = True
                e.state, e.result = got[-1]
                e.cstate, e.cresult = canon(e.state), canon(e.result)
                e.exc = None
        except Exception as x:
            e.ok, e.exc = False, type(x).__name__
        out.append(e)
        lo = hi
    return out


def run_resume_case(spec, env, split):
    """returns (fail or None, runs, transitions, state hashes, base_exceptions)"""
    _release_pipelines()
    runs = 1
    try:
        base = _run_pipeline(spec, env, split, 0, None, True)
    except Exception as x:
        return Fail("exception", -1, dict(_exc_desc(x), at="construction")), runs, 0, [], 0
    trans = len(base)
    nexc = sum(1 for e in base if not e.ok)
    states = []
    hi = 0
    for k, e in enumerate(base):
        hi += split[k]
        if e.ok:
            states.append(hash((spec.key, env.rowkey(hi), e.cstate)))
    # the captured state objects must not have been changed by the batches that followed
    for k, e in enumerate(base[:-1]):
        if e.ok and canon(e.state) != e.cstate:
            return (Fail("resumed-state", k, {"cut_after_batch": k, "relation": "captured state object changed while the original pipeline went on",
                                               "captured": e.cstate[:160], "now": canon(e.state)[:160]}, pos="mutated-after-capture"),
                    runs, trans, states, nexc)
    for cut in range(1, len(split)):
        e0 = base[cut - 1]
        if not e0.ok:
            continue
        for attempt in (1, 2):
            runs += 1
            try:
                res = _run_pipeline(spec, env, split, cut, e0.state, False)
            except Exception as x:
                return (Fail("exception", cut, dict(_exc_desc(x), at="construction with start=state", cut_after_batch=cut - 1),
                             pos="resume-%d" % attempt), runs, trans, states, nexc)
            trans += len(res)
            for j, (b, r) in enumerate(zip(base[cut:], res)):
                k = cut + j
                tag = "resume-%d" % attempt
                if b.ok != r.ok or (not b.ok and b.exc != r.exc):
                    clause = "exception" if not r.ok else "resumed-result"
                    return (Fail(clause, k, {"cut_after_batch": cut - 1, "uninterrupted": b.exc or "ok", "resumed": r.exc or "ok"}, pos=tag),
                            runs, trans, states, nexc)
                if not b.ok:
                    continue
                if b.cresult != r.cresult:
                    return (Fail("resumed-result", k, {"cut_after_batch": cut - 1, "uninterrupted": short(b.result), "resumed": short(r.result)}, pos=tag),
                            runs, trans, states, nexc)
                if r.state is not NOSTATE and b.cstate != r.cstate:
                    return (Fail("resumed-state", k, {"cut_after_batch": cut - 1, "uninterrupted": b.cstate[:160], "resumed": r.cstate[:160]}, pos=tag),
                            runs, trans, states, nexc)
    return None, runs, trans, states, nexc


def _resume_detail(fail):
    if fail.step < 0:
        return "at-construction"
    return fail.pos or "other"


def run_resume_item(item):
    logging.disable(logging.CRITICAL)
    modname, key, fam, grid, R, E, chunk_id, tabs = item
    spec = get_specs(modname)[key]
    t0 = time.time()
    out = dict(spec=key, space=(fam, grid, R, chunk_id), E=E, runs=0, transitions=0, cases=0, nontrivial=0,
               empty_exc=0, states=set(), findings={}, sample=None, failing_runs=0)
    for table in tabs:
        rows = rows_of(fam, table)
        for incs in time_patterns(grid, R):
            env = Env(fam, table, grid, incs)
            for split in splits(R, E):
                try:
                    fail, runs, trans, st, nexc = run_resume_case(spec, env, split)
                except Exception as e:   # noqa
                    fail, runs, trans, st, nexc = (Fail("unexpected-behaviour", 0, {"while": "running / comparing the case",
                                                                                   "error": "%s: %s" % (type(e).__name__, str(e)[:160])}), 1, 0, [], 0)
                out["runs"] += runs
                out["cases"] += 1
                out["transitions"] += trans
                out["empty_exc"] += nexc
                out["states"].update(st)
                if is_nontrivial(env, split, rows):
                    out["nontrivial"] += 1
                if out["sample"] is None and chunk_id == 0 and len(split) >= 3 and fail is None:
                    out["sample"] = dict(aggregation=key, rows=jrows(rows), split=list(split),
                                         times=[t - BASE for t in times_of(grid, incs, R)] if grid else None,
                                         history="uninterrupted run capturing the state after every batch, then for every cut two "
                                                 "successive fresh pipelines with start=<captured state object> fed the remaining batches",
                                         pipeline_runs=runs)
                if fail is not None:
                    out["failing_runs"] += 1
                    sig = (fail.clause, spec.site, _resume_detail(fail))
                    ck = case_key(spec, env, split)
                    rp = _replay_dict(modname, spec, env, split, fail)
                    rp["mode"] = "resume"
                    cur = out["findings"].get(sig)
                    if cur is None or ck < cur[1]:
                        n = 1 if cur is None else cur[0] + 1
                        out["findings"][sig] = [n, ck, rp, _summary(spec, env, split, fail)]
                    else:
                        cur[0] += 1
    out["secs"] = time.time() - t0
    return out


def replay_resume_case(rep):
    logging.disable(logging.CRITICAL)
    spec = get_specs(rep["module"])[rep["spec"]]
    env = Env(rep["family"], tuple(rep["table"]), rep.get("grid"), rep.get("incs"))
    fail = run_resume_case(spec, env, tuple(rep["split"]))[0]
    if fail is None:
        return None, None
    return fail, _resume_detail(fail)
