"""Reference interpreter for synchronous streamz pipelines (DESIGN.md Appendix A).

Deliberately boring: immutable node states, pure step functions, values carrying their
provenance (ordered ids of the source elements that contributed).  Written from the
docstrings / docs, not from the node code.  One model yields three oracles: values (C01),
metadata lists (C10) and holders (C05).
"""
import collections


class V:
    __slots__ = ("val", "prov")

    def __init__(self, val, prov):
        self.val = val
        self.prov = tuple(prov)

    def key(self):
        return (_fz(self.val), self.prov)

    def __repr__(self):
        return "V(%r,%r)" % (self.val, self.prov)


def _fz(x):
    if isinstance(x, (list, tuple)):
        return tuple(_fz(y) for y in x)
    return x


# ---- user functions (stateless) -----------------------------------------------------------
def inc(x):
    return x + 1


def pair(x):
    return (x, x + 1)


def add(a, b):
    return a + b


def odd(x):
    return x % 2 == 1


def parity(x):
    return x % 2


def ident(x):
    return x


def accrs(st, x):
    return (st + x, st * 10 + x)


def nxt(x):
    return (x * 2) % 5


def tsum(t):
    return sum(t)


def addk(x, y=0, k=0):
    return x + 2 * y + 3 * k


def first(t):
    return t[0]


def mkview(x):
    """an iterable that is not a sequence (no len-indexing): the keys view of a two-entry dict"""
    return {x: None, x + 10: None}.keys()


def txtwrite(text):
    return None


def rec3(x, tag=None, k=0):
    """a consumer that insists on the extra arguments its sink was given"""
    if tag != "t" or k != 1:
        raise TypeError("sink function called with tag=%r k=%r" % (tag, k))
    return None


def add3(a, b, c=0):
    return a + b + c


def gtk(x, lo=0, hi=99):
    return lo < x <= hi


def accw(st, x, w=1):
    return st + w * x


def accn(st, x):
    return (st or 0) + 10 * x


def odd1(x):
    return x % 2 == 1


class Boom(Exception):
    """failure injected into the j-th user-function invocation of one emit (C16)"""


class _Fault:
    def __init__(self):
        self.target = 0      # 0 = no failure
        self.count = 0
        self.raised = None

    def arm(self, target):
        self.target = target
        self.count = 0
        self.raised = None


FAULT = _Fault()


def _hooked(f):
    def g(*a, **k):
        FAULT.count += 1
        if FAULT.target and FAULT.count == FAULT.target:
            FAULT.raised = Boom("invocation %d (%s)" % (FAULT.count, f.__name__))
            raise FAULT.raised
        return f(*a, **k)
    g.__name__ = f.__name__
    return g


def _record(x):
    return None


FUNCS = dict((k, _hooked(v)) for k, v in dict(inc=inc, pair=pair, add=add, odd=odd, parity=parity, ident=ident, accrs=accrs,
                                              nxt=nxt, tsum=tsum, record=_record, addk=addk, add3=add3, gtk=gtk, accw=accw, accn=accn, odd1=odd1, first=first, rec3=rec3, mkview=mkview, txtwrite=txtwrite).items())


# ---- node step functions ---------------------------------------------------------------------
def init_state(spec, nports=1):
    k = spec[0]
    if k == "acc":
        return (spec[2] is not None, spec[2])
    if k == "accwsns":
        return (False, None)
    if k == "freq":
        return ()
    if k in ("accws", "accrsws"):
        return 0
    if k == "accnone":
        return (False, None)
    if k == "pkey":
        return ()
    if k == "slice":
        return 0
    if k in ("partition", "punique", "sw", "unique", "collect"):
        return ()
    if k == "zip":
        return tuple(() for _ in range(nports))
    if k == "cl":
        return tuple(None for _ in range(nports))
    if k == "zl":
        return (tuple(None for _ in range(nports)), ())
    return None


def _cat(vs):
    out = ()
    for v in vs:
        out += v.prov
    return out


def step(spec, st, port, v, nports=1):
    """-> (new state, [outputs])"""
    k = spec[0]
    if k == "src":        # a plain Stream used as a junction (feedback target): passes through
        return st, [v]
    if k == "map":
        return st, [V(FUNCS[spec[1]](v.val), v.prov)]
    if k == "mapargs":        # map(addk, 5, k=10): extra positional and keyword arguments
        return st, [V(FUNCS["addk"](v.val, 5, k=10), v.prov)]
    if k == "starmap":
        return st, [V(FUNCS[spec[1]](*v.val), v.prov)]
    if k == "starmapkw":      # starmap(add3, c=100)
        return st, [V(FUNCS["add3"](*v.val, c=100), v.prov)]
    if k == "starmapargs":    # starmap(add3, 100): extra positional argument appended
        return st, [V(FUNCS["add3"](*(tuple(v.val) + (100,))), v.prov)]
    if k == "filtername":     # filter(odd1, stream_name="f"): the stream_name is not the predicate's business
        return st, ([v] if FUNCS["odd1"](v.val) else [])
    if k == "accnone":        # accumulate(accn, start=None): None is a legitimate start value
        s2 = FUNCS["accn"](st[1] if st[0] else None, v.val)
        return (True, s2), [V(s2, v.prov)]
    if k == "accrsws":        # accumulate(accrs, start=0, returns_state=True, with_state=True) emits (state, result)
        s2, res = FUNCS["accrs"](st, v.val)
        return s2, [V((s2, res), v.prov)]
    if k == "filterargs":     # filter(gtk, 1, hi=2): passes 1 < x <= 2
        return st, ([v] if FUNCS["gtk"](v.val, 1, hi=2) else [])
    if k == "accwsns":        # accumulate(accw, w=2, with_state=True) without start: first element becomes the state, emitted as (x, x)
        if not st[0]:
            return (True, v.val), [V((v.val, v.val), v.prov)]
        s2 = FUNCS["accw"](st[1], v.val, w=2)
        return (True, s2), [V((s2, s2), v.prov)]
    if k == "flattenview":    # map(mkview).flatten(): pieces x, x+10; metadata on the last piece
        FUNCS["mkview"](v.val)
        return st, [V(v.val, ()), V(v.val + 10, v.prov)]
    if k == "freq":           # frequencies(): running count of every value seen, a new dict per element
        d = dict(st)
        d[v.val] = d.get(v.val, 0) + 1
        return tuple(sorted(d.items())), [V(dict(d), v.prov)]
    if k == "accws":          # accumulate(accw, start=0, w=2, with_state=True) emits (state, result)
        s2 = FUNCS["accw"](st, v.val, w=2)
        return s2, [V((s2, s2), v.prov)]
    if k == "pkey":           # partition(2, key=0) on pairs: key taken by indexing
        kk = v.val[0] % 2 if spec[1] == "mod" else v.val[0]
        d = collections.OrderedDict(st)
        buf = d.get(kk, ()) + (v,)
        if len(buf) == 2:
            d[kk] = ()
            return tuple(d.items()), [V(tuple(b.val for b in buf), _cat(buf))]
        d[kk] = buf
        return tuple(d.items()), []
    if k == "filter":
        f = bool if spec[1] == "none" else FUNCS[spec[1]]
        return st, ([v] if f(v.val) else [])
    if k == "remove":         # Stream.remove(predicate): the complement of filter
        return st, ([] if FUNCS[spec[1]](v.val) else [v])
    if k == "acc":
        _, fname, start, rs = spec
        has, s = st
        if not has:
            return (True, v.val), [v]
        r = FUNCS[fname](s, v.val)
        if rs:
            s2, res = r
        else:
            s2 = res = r
        return (True, s2), [V(res, v.prov)]
    if k == "slice":
        _, a, b, c = spec
        i = st
        a0, c0 = a or 0, c or 1
        ok = i >= a0 and (b is None or i < b) and (i - a0) % c0 == 0
        return i + 1, ([v] if ok else [])
    if k == "partition":
        _, n, key = spec
        kk = None if key is None else FUNCS[key](v.val)
        d = collections.OrderedDict(st)
        buf = d.get(kk, ()) + (v,)
        if len(buf) == n:
            d[kk] = ()
            return tuple(d.items()), [V(tuple(b.val for b in buf), _cat(buf))]
        d[kk] = buf
        return tuple(d.items()), []
    if k == "punique":
        _, n, key, keep = spec
        kk = FUNCS["first" if key == "idx0" else key](v.val)     # idx0: key=0, taken by indexing
        items = list(st)
        if keep == "last":
            items = [(a, b) for a, b in items if a != kk] + [(kk, v)]
        elif all(a != kk for a, _ in items):
            items.append((kk, v))
        if len(items) == n:
            vs = [b for _, b in items]
            return (), [V(tuple(b.val for b in vs), _cat(vs))]
        return tuple(items), []
    if k == "sw":
        _, n, partial = spec
        buf = (st + (v,))[-n:]
        outs = [V(tuple(b.val for b in buf), _cat(buf))] if (partial or len(buf) == n) else []
        return buf, outs
    if k == "unique":
        _, maxsize, key, hashable = spec
        kk = FUNCS[key](v.val)
        seen = list(st)
        if kk in seen:
            seen.remove(kk)
            seen.append(kk)
            return tuple(seen), []
        seen.append(kk)
        if maxsize:
            seen = seen[-maxsize:]
        return tuple(seen), [v]
    if k == "flatten":
        items = list(v.val)
        return st, [V(x, ()) for x in items[:-1]] + ([V(items[-1], v.prov)] if items else [])
    if k == "pluck":
        pk = spec[1]
        if isinstance(pk, tuple):
            return st, [V(tuple(v.val[i] for i in pk), v.prov)]
        return st, [V(v.val[pk], v.prov)]
    if k == "collect":
        return st + (v,), []
    if k == "sinktxt":     # map(str).sink_to_textfile(f, end="|"): what is written, per element
        FUNCS["txtwrite"](str(v.val) + "|")
        return st, [V(str(v.val) + "|", v.prov)]
    if k == "sinkf":       # a sink calling a user function; emits nothing
        if spec[1] == "rec3":           # sink(rec3, "t", k=1)
            FUNCS["rec3"](v.val, "t", k=1)
        else:
            FUNCS[spec[1]](v.val)
        return st, []
    if k == "union":
        return st, [v]
    if k == "zip":
        lits = spec[1]
        qs = [list(q) for q in st]
        qs[port].append(v)
        outs = []
        while qs and all(qs):        # every complete tuple, heads first
            heads = [q.pop(0) for q in qs]
            out = [h.val for h in heads]
            for pos, val in lits:
                out.insert(pos, val)
            outs.append(V(tuple(out), _cat(heads)))
        return tuple(tuple(q) for q in qs), outs
    if k == "cl":
        emit_on = spec[1]
        last = list(st)
        last[port] = v
        outs = []
        if all(x is not None for x in last) and (emit_on is None or port in emit_on):
            outs = [V(tuple(x.val for x in last), _cat(last))]
        return tuple(last), outs
    if k == "zl":
        last, queue = st
        last = list(last)
        queue = list(queue)
        if port == 0:
            queue.append(v)
        else:
            last[port] = v
        outs = []
        if all(x is not None for x in last[1:]):
            while queue:
                q = queue.pop(0)
                rest = [x for x in last[1:]]
                outs.append(V((q.val,) + tuple(x.val for x in rest), q.prov + _cat(rest)))
        return (tuple(last), tuple(queue)), outs
    raise KeyError(k)


def flush(spec, st):
    assert spec[0] == "collect"
    return (), [V(tuple(b.val for b in st), _cat(st))]


def holders(spec, st):
    """element ids (with multiplicity) a node in state st legitimately retains"""
    k = spec[0]
    if k in ("partition", "pkey"):
        return [e for _, buf in st for b in buf for e in b.prov]
    if k == "punique":
        return [e for _, b in st for e in b.prov]
    if k == "sw":
        n = spec[1]
        buf = st if len(st) < n else st[1:]
        return [e for b in buf for e in b.prov]
    if k == "collect":
        return [e for b in st for e in b.prov]
    if k == "zip":
        return [e for q in st for b in q for e in b.prov]
    if k == "cl":
        return [e for b in st if b is not None for e in b.prov]
    if k == "zl":
        return [e for b in st[0][1:] if b is not None for e in b.prov] + [e for b in st[1] for e in b.prov]
    return []


def state_key(st):
    if isinstance(st, V):
        return st.key()
    if isinstance(st, (tuple, list)):
        return tuple(state_key(x) for x in st)
    return _fz(st)


# ---- graph interpreter -----------------------------------------------------------------------
class RefGraph:
    """nodes: dict id -> spec ('src',) for entries; edges kept as ordered downstream lists
    (attachment order) and ordered upstream lists (port = index).  A recorder hangs off every
    node as its *first* downstream."""

    def __init__(self):
        self.spec = {}
        self.down = {}
        self.up = {}
        self.state = {}
        self.order = []

    def add(self, nid, spec, ups=()):
        self.spec[nid] = spec
        self.down[nid] = []
        self.up[nid] = list(ups)
        for u in ups:
            self.down[u].append(nid)
        self.state[nid] = init_state(spec, len(ups))
        self.order.append(nid)

    def emit(self, entry, v, out, budget=200):
        """push v into entry point; appends (node id, V) recorder events to out"""
        self._n = 0
        self._budget = budget
        self._emit_from(entry, v, out)

    def _emit_from(self, nid, v, out):
        self._n += 1
        if self._n > self._budget:
            raise RecursionError("reference feedback did not terminate")
        out.append((nid, v))
        for d in list(self.down[nid]):
            port = self.up[d].index(nid)
            try:
                st, outs = step(self.spec[d], self.state[d], port, v, len(self.up[d]))
            except Boom:
                # abort semantics: the failing node keeps its state.  A synchronous node aborts
                # the whole push; a coroutine-style node (partition) carries the failure in its
                # awaitable and the sibling branches still see the element (continue mode).
                if getattr(self, "continue_mode", False):
                    self.boomed = True
                    continue
                raise
            self.state[d] = st
            for o in outs:
                self._emit_from(d, o, out)

    def flush(self, nid, out, budget=200):
        self._n = 0
        self._budget = budget
        st, outs = flush(self.spec[nid], self.state[nid])
        self.state[nid] = st
        for o in outs:
            self._emit_from(nid, o, out)

    def held(self):
        c = collections.Counter()
        for nid in self.order:
            for e in holders(self.spec[nid], self.state[nid]):
                c[e] += 1
        return c

    def key(self):
        return tuple((nid, state_key(self.state[nid])) for nid in self.order)

    def snapshot(self):
        return dict(self.state)

    def restore(self, snap):
        self.state = dict(snap)
