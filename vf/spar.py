"""Parallel driver for engine S: distributes subtrees of the schedule tree of many
scenarios over a process pool with work splitting, merges the statistics and turns
violations into Findings with replay data."""
import importlib
import multiprocessing
import re
import time

from .common import Finding, Report
from .sched import Exec, Stats, explore, replay as _replay

BUDGET = 400     # executions per work item before the remaining stack is handed back


def _work(item):
    modname, key, bound, starts, budget = item
    mod = importlib.import_module(modname)
    factory = mod.factory(key)
    st = Stats()
    left = []
    remaining = budget
    for s in starts:
        if remaining <= 0:
            left.append(s)
            continue
        before = st.executions
        st, lo = explore(factory, bound, start=s, budget=remaining, stats=st)
        remaining -= st.executions - before
        left.extend(lo)
    return key, bound, st, left


SHARED = "instances-share-state"
_ADDR = re.compile(r" at 0x[0-9a-f]+")


def _observation(x):
    return [_ADDR.sub("", repr(t)) for t in x.scen.trace] + [_ADDR.sub("", repr(e)) for e in x.scen.log]


def twice(modname, key):
    """Independence differential: the default schedule of a scenario run twice in a row in one process, each
    time on freshly built pipelines (and a fresh virtual loop and clock), must give the same observations.
    Returns None or (detail, info): state kept outside the instances (class or module level) is the only way
    the second run can differ.  The per-property oracles are applied to both runs as usual."""
    mod = importlib.import_module(modname)
    a = Exec(mod.factory(key)).run()
    b = Exec(mod.factory(key)).run()
    oa, ob = _observation(a), _observation(b)
    sig_b = sorted(set(v.sig for v in b.violations) - set(v.sig for v in a.violations))
    if oa == ob and not sig_b:
        return None
    i = next((i for i, (p, q) in enumerate(zip(oa, ob)) if p != q), min(len(oa), len(ob)))
    info = dict(first_difference=i, first_run=oa[i:i + 3], second_run=ob[i:i + 3],
                new_violations_in_second_run=[list(map(str, s)) for s in sig_b][:3])
    return (a.scen.site(), info)


def _twice_job(item):
    modname, key = item
    return key, twice(modname, key)


def _independence(ctx, modname, keys):
    """every scenario key in a process that has run nothing else (one forked child per key)"""
    out = {}
    keys = list(dict.fromkeys(keys))
    mp = multiprocessing.get_context("fork")
    with mp.Pool(processes=max(1, ctx.jobs), maxtasksperchild=1) as pool:
        for key, res in pool.imap_unordered(_twice_job, [(modname, k) for k in keys], 1):
            if res is not None:
                out[key] = res
    return out


def run_scenarios(ctx, modname, jobs_spec, cap=None):
    """jobs_spec: list of (key, bound).  Returns dict key -> Stats.
    cap: optional max executions per scenario (sets capped flag)."""
    results = {}
    for key, bound in jobs_spec:
        results[key] = Stats()
    # phase 0: pipelines built one after the other in one process do not influence each other.  A scenario that
    # fails this is reported and not explored (its schedule tree is not a tree: replayed prefixes diverge).
    shared = _independence(ctx, modname, [k for k, _ in jobs_spec])
    for key, (site, info) in shared.items():
        st = results[key]
        st.executions += 2
        sig = (SHARED, site, "")
        st.viol[sig] = (["<default schedule, run twice in one process>"], repr(info)[:600], [])
        st.viol_count[sig] += 1
    jobs_spec = [(k, b) for k, b in jobs_spec if k not in shared]
    items = [(modname, key, bound, [((), ())], BUDGET) for key, bound in jobs_spec]
    ctx.rng.shuffle(items)
    if ctx.jobs <= 1:
        queue = list(items)
        while queue:
            it = queue.pop()
            key, bound, st, left = _work(it)
            results[key].merge(st)
            if left:
                if cap and results[key].executions >= cap:
                    results[key].capped = True
                else:
                    queue.append((modname, key, bound, left, BUDGET))
        return results
    pool = ctx.pool()
    pending = []
    for it in items:
        pending.append(pool.apply_async(_work, (it,)))
    while pending:
        nxt = []
        progressed = False
        for r in pending:
            if r.ready():
                progressed = True
                key, bound, st, left = r.get()
                results[key].merge(st)
                if left:
                    if cap and results[key].executions >= cap:
                        results[key].capped = True
                        continue
                    # split leftovers into chunks so idle workers can take them
                    n = max(1, min(len(left), ctx.jobs))
                    size = (len(left) + n - 1) // n
                    for i in range(0, len(left), size):
                        nxt.append(pool.apply_async(_work, ((modname, key, bound, left[i:i + size], BUDGET),)))
            else:
                nxt.append(r)
        pending = nxt
        if not progressed:
            time.sleep(0.01)
    return results


def report_from(ctx, modname, results, bounds, rule, assumptions=(), confirm=True):
    """Build a Report from per-scenario Stats; every violation is re-run twice
    (determinism) before it is reported."""
    mod = importlib.import_module(modname)
    rep = Report()
    tot = Stats()
    per = {}
    for key, st in results.items():
        tot.executions += st.executions
        tot.transitions += st.transitions
        tot.max_depth = max(tot.max_depth, st.max_depth)
        tot.deviating += st.deviating
        tot.capped = tot.capped or st.capped
        per[_kstr(key)] = dict(executions=st.executions, states=len(st.states), outcomes=len(st.outcomes),
                               transitions=st.transitions, violating_signatures=len(st.viol), capped=st.capped)
        for sig, (trace, info, choices) in st.viol.items():
            if sig[0] == SHARED:
                # confirmed in two more fresh processes
                again = [_independence(ctx, modname, [key]).get(key) for _ in range(2)]
                if any(r is None for r in again):
                    from .vloop import HarnessError
                    raise HarnessError("%r of %r not reproducible in a fresh process" % (sig, key))
                rep.add(Finding(sig[0], sig[1], sig[2],
                                dict(engine="sched-twice", module=modname, scenario=_jsonkey(key), observed=info),
                                "%s: default schedule run twice in one process :: %s" % (_kstr(key), info), count=1))
                continue
            if confirm:
                a = _replay(mod.factory(key), choices)
                b = _replay(mod.factory(key), choices)
                sa = sorted(set(v.sig for v in a.violations))
                sb = sorted(set(v.sig for v in b.violations))
                if sa != sb or sig not in sa or a.scen.trace != b.scen.trace:
                    from .vloop import HarnessError
                    raise HarnessError("violation %r of %r not reproducible on replay: %r vs %r" % (sig, key, sa, sb))
            rep.add(Finding(sig[0], sig[1], sig[2],
                            dict(engine="sched", module=modname, scenario=_jsonkey(key), choices=choices, trace=trace, observed=info),
                            "%s: %s :: %s" % (_kstr(key), " ".join(trace[:40]), info), count=st.viol_count[sig]))
    nstates = sum(len(st.states) for st in results.values())
    nout = sum(len(st.outcomes) for st in results.values())
    samples = []
    for key, st in list(results.items())[:3]:
        for s in st.samples[:1]:
            samples.append(dict(scenario=_kstr(key), schedule=s))
    rep.coverage = dict(
        evaluations=tot.executions, states=nstates, transitions=tot.transitions,
        traces_validated_against_impl=tot.executions,
        distinct_nontrivial=nout, rule=rule, samples=samples,
        scenarios=len(results), deviation_bounds=bounds, max_schedule_length=tot.max_depth,
        executions_with_deviation=tot.deviating, per_scenario=per,
    )
    rep.exhaustive = not tot.capped
    rep.assumptions = list(assumptions)
    return rep


def _kstr(key):
    return key if isinstance(key, str) else "|".join(str(k) for k in key)


def _jsonkey(key):
    return list(key) if isinstance(key, tuple) else key


def replay_finding(modname, rep):
    """re-execute a replay file produced by report_from; returns the violations seen"""
    mod = importlib.import_module(modname)
    key = rep["scenario"]
    key = tuple(_tuplify(k) for k in key) if isinstance(key, list) else key
    if rep.get("engine") == "sched-twice":
        class _R:
            violations = []
        res = twice(modname, key)
        r = _R()
        if res is not None:
            from .sched import Violation
            r.violations = [Violation(SHARED, res[0], "", res[1])]
        return r
    x = _replay(mod.factory(key), rep["choices"])
    return x


def _tuplify(k):
    return tuple(_tuplify(x) for x in k) if isinstance(k, list) else k
