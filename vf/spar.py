"""Parallel driver for engine S: distributes subtrees of the schedule tree of many
scenarios over a process pool with work splitting, merges the statistics and turns
violations into Findings with replay data."""
import importlib
import multiprocessing
import re
import time

from .common import Finding, Report
from .sched import Exec, Stats, explore, replay as _replay
from .vloop import HarnessError

BUDGET = 400     # executions per work item before the remaining stack is handed back


_LAST = None      # (module, scenario key, choices) of the execution that ran last in this process


def _work(item):
    global _LAST
    modname, key, bound, starts, budget = item
    mod = importlib.import_module(modname)
    factory = mod.factory(key)
    st = Stats()
    left = []
    remaining = budget

    def note(choices):
        global _LAST
        _LAST = (modname, key, list(choices))
    for s in starts:
        if remaining <= 0:
            left.append(s)
            continue
        before = st.executions
        try:
            st, lo = explore(factory, bound, start=s, budget=remaining, stats=st, on_exec=note)
        except HarnessError as e:
            victim = getattr(e, "victim", None)
            if "replay divergence" in str(e) and victim is not None and _LAST is not None:
                # a replayed prefix took another turn than when it was recorded: either the harness is not
                # deterministic, or the execution that ran before it in this process left something behind
                # in the library (state kept outside the pipeline instances).  The parent decides which.
                return key, bound, st, [], dict(culprit=_LAST, victim=(key, list(victim[0]), list(victim[1])), message=str(e))
            raise
        remaining -= st.executions - before
        left.extend(lo)
    return key, bound, st, left, None


def _confirm_job(item):
    modname, key, choices = item
    mod = importlib.import_module(modname)
    try:
        x = _replay(mod.factory(key), choices)
    except HarnessError as e:
        return [("harness", str(e), "")], None
    return sorted(set(v.sig for v in x.violations)), list(x.scen.trace)


def _pair_job(item):
    """fresh process: the victim prefix alone, or after the culprit execution"""
    modname, culprit, victim = item
    mod = importlib.import_module(modname)
    if culprit is not None:
        Exec(mod.factory(_tuplify(culprit[1])), tuple(culprit[2])).run()
    vkey, prefix, labels = victim
    try:
        x = Exec(mod.factory(_tuplify(vkey)), tuple(prefix), tuple(labels)).run()
    except HarnessError as e:
        return ("diverged", str(e), None)
    return ("ok", _observation(x), x.scen.site())


def pair(modname, culprit, victim):
    """None, or (site, info) when the victim execution behaves differently after the culprit execution has run
    in the same process than it does in a process of its own"""
    mp = multiprocessing.get_context("fork")
    with mp.Pool(processes=2, maxtasksperchild=1) as pool:
        alone, after = pool.map(_pair_job, [(modname, None, victim), (modname, culprit, victim)], 1)
    if alone[0] != "ok":
        raise HarnessError("replay divergence in a process of its own (harness not deterministic): %s" % alone[1])
    if after[0] == "ok" and after[1] == alone[1]:
        return None
    info = dict(after_execution=dict(scenario=_kstr(_tuplify(culprit[1])), choices=culprit[2]),
                this_execution=dict(scenario=_kstr(_tuplify(victim[0])), labels=list(victim[2])),
                behaviour_alone="as recorded", behaviour_after=after[1] if after[0] == "diverged" else "observations differ")
    return alone[2], info


SHARED = "instances-share-state"
_ADDR = re.compile(r" at 0x[0-9a-f]+")


def _observation(x):
    return [_ADDR.sub("", repr(t)) for t in x.scen.trace] + [_ADDR.sub("", repr(e)) for e in x.scen.log]


def twice(modname, key):
    """Independence differential: the default schedule of a scenario run twice in a row in one process, each
    time on freshly built pipelines (and a fresh virtual loop and clock), must give the same observations.
    Returns None or (detail, info): state kept outside the instances (class or module level) is the only way
    the second run can differ.  The per-property oracles are applied to both runs as usual."""
    mod = importlib.import_module(modname)
    a = Exec(mod.factory(key)).run()
    b = Exec(mod.factory(key)).run()
    oa, ob = _observation(a), _observation(b)
    sig_b = sorted(set(v.sig for v in b.violations) - set(v.sig for v in a.violations))
    if oa == ob and not sig_b:
        return None
    i = next((i for i, (p, q) in enumerate(zip(oa, ob)) if p != q), min(len(oa), len(ob)))
    info = dict(first_difference=i, first_run=oa[i:i + 3], second_run=ob[i:i + 3],
                new_violations_in_second_run=[list(map(str, s)) for s in sig_b][:3])
    return (a.scen.site(), info)


def _twice_job(item):
    modname, key = item
    return key, twice(modname, key)


def _independence(ctx, modname, keys):
    """every scenario key in a process that has run nothing else (one forked child per key)"""
    out = {}
    keys = list(dict.fromkeys(keys))
    mp = multiprocessing.get_context("fork")
    with mp.Pool(processes=max(1, ctx.jobs), maxtasksperchild=1) as pool:
        for key, res in pool.imap_unordered(_twice_job, [(modname, k) for k in keys], 1):
            if res is not None:
                out[key] = res
    return out


def run_scenarios(ctx, modname, jobs_spec, cap=None):
    """jobs_spec: list of (key, bound).  Returns dict key -> Stats.
    cap: optional max executions per scenario (sets capped flag)."""
    results = {}
    for key, bound in jobs_spec:
        results[key] = Stats()
    # phase 0: pipelines built one after the other in one process do not influence each other.  A scenario that
    # fails this is reported and not explored (its schedule tree is not a tree: replayed prefixes diverge).
    shared = _independence(ctx, modname, [k for k, _ in jobs_spec])
    for key, (site, info) in shared.items():
        st = results[key]
        st.executions += 2
        sig = (SHARED, site, "")
        st.viol[sig] = (["<default schedule, run twice in one process>"], repr(info)[:600], [])
        st.viol_count[sig] += 1
    jobs_spec = [(k, b) for k, b in jobs_spec if k not in shared]
    leaked = set()
    items = [(modname, key, bound, [((), ())], BUDGET) for key, bound in jobs_spec]
    ctx.rng.shuffle(items)
    if ctx.jobs <= 1:
        queue = list(items)
        while queue:
            it = queue.pop()
            key, bound, st, left, div = _work(it)
            results[key].merge(st)
            if div is not None:
                _leak(ctx, modname, results, leaked, div)
                queue = [q for q in queue if q[1] not in leaked]
                continue
            if left:
                if cap and results[key].executions >= cap:
                    results[key].capped = True
                else:
                    queue.append((modname, key, bound, left, BUDGET))
        return results
    pool = ctx.pool()
    pending = []
    for it in items:
        pending.append(pool.apply_async(_work, (it,)))
    while pending:
        nxt = []
        progressed = False
        for r in pending:
            if r.ready():
                progressed = True
                key, bound, st, left, div = r.get()
                results[key].merge(st)
                if div is not None:
                    _leak(ctx, modname, results, leaked, div)
                    continue
                if key in leaked:
                    continue
                if left:
                    if cap and results[key].executions >= cap:
                        results[key].capped = True
                        continue
                    # split leftovers into chunks so idle workers can take them
                    n = max(1, min(len(left), ctx.jobs))
                    size = (len(left) + n - 1) // n
                    for i in range(0, len(left), size):
                        nxt.append(pool.apply_async(_work, ((modname, key, bound, left[i:i + size], BUDGET),)))
            else:
                nxt.append(r)
        pending = nxt
        if not progressed:
            time.sleep(0.01)
    return results


def _leak(ctx, modname, results, leaked, div):
    key = div["victim"][0]
    if key in leaked:
        return
    res = pair(modname, div["culprit"], div["victim"])
    if res is None:
        raise HarnessError(div["message"] + " (not explained by the execution that ran before it)")
    leaked.add(key)
    site, info = res
    sig = (SHARED, site, "")
    st = results[key]
    if sig not in st.viol:
        st.viol[sig] = (["<pair>"], repr(info)[:600], dict(culprit=[div["culprit"][0], _jsonkey(div["culprit"][1]), div["culprit"][2]],
                                                             victim=[_jsonkey(div["victim"][0]), div["victim"][1], div["victim"][2]]))
    st.viol_count[sig] += 1


def report_from(ctx, modname, results, bounds, rule, assumptions=(), confirm=True):
    """Build a Report from per-scenario Stats; every violation is re-run twice
    (determinism) before it is reported."""
    mod = importlib.import_module(modname)
    rep = Report()
    tot = Stats()
    per = {}
    for key, st in results.items():
        tot.executions += st.executions
        tot.transitions += st.transitions
        tot.max_depth = max(tot.max_depth, st.max_depth)
        tot.deviating += st.deviating
        tot.capped = tot.capped or st.capped
        per[_kstr(key)] = dict(executions=st.executions, states=len(st.states), outcomes=len(st.outcomes),
                               transitions=st.transitions, violating_signatures=len(st.viol), capped=st.capped)
        for sig, (trace, info, choices) in st.viol.items():
            if sig[0] == SHARED and isinstance(choices, dict):
                # (already established in fresh processes by pair())
                if pair(modname, choices["culprit"], (_tuplify(choices["victim"][0]), choices["victim"][1], choices["victim"][2])) is None:
                    raise HarnessError("%r of %r not reproducible" % (sig, key))
                rep.add(Finding(sig[0], sig[1], sig[2],
                                dict(engine="sched-pair", module=modname, scenario=_jsonkey(key), pair=choices, observed=info),
                                "%s: an execution behaves differently after another one has run in the same process :: %s" % (_kstr(key), info),
                                count=st.viol_count[sig]))
                continue
            if sig[0] == SHARED:
                # confirmed in two more fresh processes
                again = [_independence(ctx, modname, [key]).get(key) for _ in range(2)]
                if any(r is None for r in again):
                    from .vloop import HarnessError
                    raise HarnessError("%r of %r not reproducible in a fresh process" % (sig, key))
                rep.add(Finding(sig[0], sig[1], sig[2],
                                dict(engine="sched-twice", module=modname, scenario=_jsonkey(key), observed=info),
                                "%s: default schedule run twice in one process :: %s" % (_kstr(key), info), count=1))
                continue
            if confirm:
                # replayed twice, each time in a process that has run nothing else
                mp = multiprocessing.get_context("fork")
                with mp.Pool(processes=2, maxtasksperchild=1) as pool:
                    (sa, ta), (sb, tb) = pool.map(_confirm_job, [(modname, key, choices)] * 2, 1)
                if sa != sb or sig not in sa or ta != tb:
                    if any(s[0] == SHARED for st2 in results.values() for s in st2.viol):
                        # found in a worker process in which an earlier execution had left state behind (reported
                        # separately as instances-share-state); the schedule itself does not show it
                        continue
                    raise HarnessError("violation %r of %r not reproducible on replay: %r vs %r" % (sig, key, sa, sb))
            rep.add(Finding(sig[0], sig[1], sig[2],
                            dict(engine="sched", module=modname, scenario=_jsonkey(key), choices=choices, trace=trace, observed=info),
                            "%s: %s :: %s" % (_kstr(key), " ".join(trace[:40]), info), count=st.viol_count[sig]))
    nstates = sum(len(st.states) for st in results.values())
    nout = sum(len(st.outcomes) for st in results.values())
    samples = []
    for key, st in list(results.items())[:3]:
        for s in st.samples[:1]:
            samples.append(dict(scenario=_kstr(key), schedule=s))
    rep.coverage = dict(
        evaluations=tot.executions, states=nstates, transitions=tot.transitions,
        traces_validated_against_impl=tot.executions,
        distinct_nontrivial=nout, rule=rule, samples=samples,
        scenarios=len(results), deviation_bounds=bounds, max_schedule_length=tot.max_depth,
        executions_with_deviation=tot.deviating, per_scenario=per,
    )
    rep.exhaustive = not tot.capped
    rep.assumptions = list(assumptions)
    return rep


def _kstr(key):
    return key if isinstance(key, str) else "|".join(str(k) for k in key)


def _jsonkey(key):
    return list(key) if isinstance(key, tuple) else key


def replay_finding(modname, rep):
    """re-execute a replay file produced by report_from; returns the violations seen"""
    mod = importlib.import_module(modname)
    key = rep["scenario"]
    key = tuple(_tuplify(k) for k in key) if isinstance(key, list) else key
    if rep.get("engine") == "sched-pair":
        class _P:
            violations = []
        pr = rep["pair"]
        res = pair(modname, pr["culprit"], (_tuplify(pr["victim"][0]), pr["victim"][1], pr["victim"][2]))
        r = _P()
        if res is not None:
            from .sched import Violation
            r.violations = [Violation(SHARED, res[0], "", res[1])]
        return r
    if rep.get("engine") == "sched-twice":
        class _R:
            violations = []
        res = twice(modname, key)
        r = _R()
        if res is not None:
            from .sched import Violation
            r.violations = [Violation(SHARED, res[0], "", res[1])]
        return r
    x = _replay(mod.factory(key), rep["choices"])
    return x


def _tuplify(k):
    return tuple(_tuplify(x) for x in k) if isinstance(k, list) else k
