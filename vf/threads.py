"""Threaded mode for engine S: blocking emit() from real threads under a baton.

The pipeline's loop is the virtual loop (pre-seeded as streamz's "background" loop by Env);
the explorer thread plays the loop thread.  Every emitter is a real threading.Thread (so
thread identity and thread-local state behave as in production) that runs only while it
holds the baton: `call(T)` hands it over until the thread blocks in sync()'s Event.wait or
returns from emit; `resume(T)` is enabled once that event has been set.  An Event.wait
executed on the explorer (loop) thread can never be satisfied and is reported at once.
"""
import threading

_real_threading = threading


class LoopThreadBlocked(BaseException):
    """library code blocked the loop thread in a threading.Event.wait (sync() on the loop thread)"""


class _Killed(BaseException):
    pass


class Baton:
    def __init__(self):
        self.explorer = _real_threading.get_ident()
        self.main_sem = _real_threading.Semaphore(0)
        self.threads = []
        self.dead = False


class ShimEvent:
    """threading.Event replacement inside streamz.core: wait() parks the calling emitter
    thread and returns the baton to the explorer"""
    baton = None

    def __init__(self):
        self._flag = False
        self.waiter = None
        self._expired = 0

    def is_set(self):
        return self._flag

    def set(self):
        self._flag = True

    def wait(self, timeout=None):
        b = ShimEvent.baton
        if self._flag:
            return True
        if timeout is not None and self._expired < 1 and _real_threading.get_ident() != b.explorer:
            # a bounded wait may run out before the event is set (the consumer took longer than the
            # timeout): the first bounded wait on every event expires at once, virtually
            self._expired += 1
            return False
        if _real_threading.get_ident() == b.explorer:
            raise LoopThreadBlocked("threading.Event.wait() on the loop thread")
        t = _current_emitter(b)
        t.blocked_on = self
        b.main_sem.release()          # give the baton back
        t.sem.acquire()               # parked until resume(T)
        if b.dead:
            raise _Killed()
        t.blocked_on = None
        return self._flag

    def _maybe_expire(self, timeout):
        return False


def _current_emitter(b):
    me = _real_threading.get_ident()
    for t in b.threads:
        if t.ident == me:
            return t
    raise RuntimeError("Event.wait from an unknown thread")


class ShimThreading:
    """stand-in for the `threading` module inside streamz.core"""
    Event = ShimEvent
    local = _real_threading.local
    get_ident = staticmethod(_real_threading.get_ident)

    class Thread:
        created = []

        def __init__(self, target=None, **k):
            self.target = target
            self.daemon = True

        def start(self):
            ShimThreading.Thread.created.append(self.target)


class Emitter:
    """one blocking producer thread"""

    def __init__(self, scen, name, stream, items, metadata=None):
        self.scen = scen
        self.name = name
        self.stream = stream
        self.items = list(items)
        self.metadata = metadata
        self.pos = 0
        self.sem = _real_threading.Semaphore(0)
        self.blocked_on = None
        self.in_call = False
        self.finished = False
        self.results = []       # (item, 'returned' | exception)
        self.thread = _real_threading.Thread(target=self._body, daemon=True)
        self.ident = None
        self.started = False

    # ---- explorer side -----------------------------------------------------------------
    def can_call(self):
        return not self.in_call and self.pos < len(self.items)

    def can_resume(self):
        return self.in_call and self.blocked_on is not None and self.blocked_on.is_set()

    def call(self):
        b = self.scen.baton
        if not self.started:
            self.started = True
            self.thread.start()
            b.main_sem.acquire()     # thread announces itself (sets ident) and parks
        self.in_call = True
        self.sem.release()
        b.main_sem.acquire()

    def resume(self):
        b = self.scen.baton
        self.sem.release()
        b.main_sem.acquire()

    # ---- thread side -------------------------------------------------------------------
    def _body(self):
        b = self.scen.baton
        self.ident = _real_threading.get_ident()
        try:
            while True:
                b.main_sem.release()
                self.sem.acquire()
                if b.dead:
                    return
                x = self.items[self.pos]
                i = self.pos
                self.pos += 1
                scen = self.scen
                scen.log.append(("emit", self.name, scen.loop.time(), x))
                try:
                    md = self.metadata(x, i) if self.metadata else None
                    if md is not None:
                        self.stream.emit(x, metadata=md)
                    else:
                        self.stream.emit(x)
                    self.results.append((x, "returned"))
                    scen.log.append(("emit-done", self.name, scen.loop.time(), x))
                    scen.on_emit_done(self, i, x)
                except _Killed:
                    return
                except LoopThreadBlocked:
                    raise
                except BaseException as e:   # noqa
                    self.results.append((x, e))
                    scen.log.append(("emit-raised", self.name, scen.loop.time(), x, type(e).__name__))
                    scen.on_emit_raised(self, i, x, e)
                self.in_call = False
        except _Killed:
            return


class ThreadedMixin:
    """mix into a Scenario: producers are Emitter threads; the source must be built with
    asynchronous=None/False so that emit() blocks through sync()"""

    def setup_threads(self):
        import streamz.core as sc
        self.baton = Baton()
        ShimEvent.baton = self.baton
        self._saved_threading = sc.threading
        sc.threading = ShimThreading
        self.emitters = []

    def add_emitter(self, name, stream, items, metadata=None):
        e = Emitter(self, name, stream, items, metadata)
        self.emitters.append(e)
        self.baton.threads.append(e)
        return e

    def thread_events(self):
        evs = []
        for t in self.emitters:
            if t.can_call():
                evs.append(("call(%s)" % t.name, t.call))
            if t.can_resume():
                evs.append(("resume(%s)" % t.name, t.resume))
        return evs

    def teardown_threads(self):
        import streamz.core as sc
        b = self.baton
        b.dead = True
        for t in self.emitters:
            if t.started:
                t.sem.release()
        for t in self.emitters:
            if t.started:
                t.thread.join(2.0)
        sc.threading = self._saved_threading
        ShimEvent.baton = None
