"""CLI: python -m vf.run <ID> [--tier quick|thorough] [--replay PATH] [--jobs N]

exit 0: property held on everything explored (known findings are printed)
exit 1: `VIOLATION property=<id> replay=<path>` printed for an unlisted violation
exit 2: harness error (never a verdict)
"""
import argparse
import importlib
import json
import os
import sys
import traceback


def main(argv=None):
    ap = argparse.ArgumentParser()
    ap.add_argument("pid")
    ap.add_argument("--tier", default=os.environ.get("VERIF_TIER") or "quick")
    ap.add_argument("--seed", type=int, default=int(os.environ.get("VERIF_SEED") or 0))
    ap.add_argument("--jobs", type=int, default=int(os.environ.get("VERIF_JOBS") or 0))
    ap.add_argument("--replay")
    ap.add_argument("--only", help="restrict to scenarios whose key contains this text (debug)")
    a = ap.parse_args(argv)
    if a.tier not in ("quick", "thorough"):
        a.tier = "quick"
    if os.environ.get("PYTHONHASHSEED") != "0":
        env = dict(os.environ)
        env["PYTHONHASHSEED"] = "0"
        os.execve(sys.executable, [sys.executable, "-m", "vf.run"] + (argv or sys.argv[1:]), env)
    os.environ.setdefault("STREAMZ_VERIF", "1")
    import logging
    import warnings
    warnings.filterwarnings("ignore")
    from . import bind_repo
    bind_repo()
    from .common import Ctx, finalize
    from .vloop import HarnessError
    jobs = a.jobs or min(16, os.cpu_count() or 1)
    ctx = Ctx(a.pid.upper(), a.tier, a.seed, jobs)
    ctx.only = a.only
    try:
        mod = importlib.import_module("vf.props.%s" % a.pid.lower())
    except ImportError:
        traceback.print_exc()
        print("no check for %s" % a.pid)
        return 2
    import gc
    gc.collect()
    gc.freeze()     # imported modules never need re-scanning: makes per-execution gc.collect() cheap
    try:
        if a.replay:
            with open(a.replay) as fh:
                rep = json.load(fh)
            ok = mod.replay(ctx, rep)
            if ok:
                print("replay: violation not reproduced (%s)" % a.replay)
                return 0
            print("VIOLATION property=%s replay=%s" % (ctx.pid, a.replay))
            return 1
        report = mod.check(ctx)
        return finalize(ctx, report)
    except HarnessError as e:
        traceback.print_exc()
        print("HARNESS ERROR: %s" % e)
        return 2
    except Exception as e:   # noqa: an internal error of the machinery is never a verdict
        traceback.print_exc()
        print("HARNESS ERROR (internal): %s: %s" % (type(e).__name__, e))
        return 2
    finally:
        ctx.close()


if __name__ == "__main__":
    sys.exit(main())
