"""In-memory stand-in for the `confluent_kafka` module (trusted fake, C09).

One Broker = one topic with P partitions and per-group committed offsets.  Every call the
source makes is logged on the broker so the oracle can order commits against processing."""
import sys
import types


class KafkaException(Exception):
    pass


class TopicPartition:
    def __init__(self, topic, partition=-1, offset=-1001):
        self.topic = topic
        self.partition = partition
        self.offset = offset

    def __repr__(self):
        return "TP(%s,%s,%s)" % (self.topic, self.partition, self.offset)


class Message:
    def __init__(self, off, val, key=None):
        self._o, self._v, self._k = off, val, key

    def value(self):
        return self._v

    def key(self):
        return self._k

    def offset(self):
        return self._o

    def error(self):
        return None


class Broker:
    def __init__(self, topic, nparts):
        self.topic = topic
        self.parts = [[] for _ in range(nparts)]
        self.committed = {}        # (group, partition) -> offset
        self.log = []              # ('consumer', group, auto_commit) / ('commit', group, part, offset, seq)
        self.seq = 0
        self.clock = lambda: 0.0
        self.keyed = False            # True: messages at even offsets carry a key, the others none
        self.fail_committed = 0       # the next n calls of committed() raise (transient broker error)
        self.fail_watermark = ()      # partitions whose watermark query always fails
        self.flaky = False            # True: every other poll() of a fetching consumer comes back empty although data is there
        self.low = {}                 # partition -> low watermark (earlier messages have expired)

    def produce(self, part, val):
        self.parts[part].append(val)

    def add_partition(self):
        self.parts.append([])


BROKER = None


class Consumer:
    def __init__(self, params):
        self.params = dict(params)
        self.group = params.get("group.id")
        self.assigned = None
        self.pos = 0
        self.closed = False
        BROKER.log.append(("consumer", self.group, params.get("enable.auto.commit")))

    def poll(self, timeout=None):
        if self.assigned is None:
            return None
        p = BROKER.parts[self.assigned.partition]
        if BROKER.flaky:
            self._turn = not getattr(self, "_turn", False)
            if self._turn:
                return None           # nothing *right now* (the real client returns None whenever its fetch buffer is empty)
        if self.pos < len(p):
            m = Message(self.pos, p[self.pos], key=(b"k" if (BROKER.keyed and self.pos % 2 == 0) else None))
            self.pos += 1
            return m
        return None

    def assign(self, tps):
        self.assigned = tps[0]
        self.pos = max(tps[0].offset, 0, BROKER.low.get(tps[0].partition, 0))      # expired offsets are skipped

    def subscribe(self, topics):
        pass

    def get_watermark_offsets(self, tp, timeout=None, cached=False):
        if tp.partition >= len(BROKER.parts):
            raise KafkaException("unknown partition %r" % (tp,))
        if tp.partition in BROKER.fail_watermark and self.assigned is None and getattr(self, "_probed", False):
            raise KafkaException("watermark query failed for %r" % (tp,))
        self._probed = True        # (the very first query is start()'s own connectivity probe)
        return (BROKER.low.get(tp.partition, 0), len(BROKER.parts[tp.partition]))

    def committed(self, tps, timeout=None):
        if BROKER.fail_committed > 0:
            BROKER.fail_committed -= 1
            raise KafkaException("committed(): broker transport failure")
        return [TopicPartition(tp.topic, tp.partition, BROKER.committed.get((self.group, tp.partition), -1001))
                for tp in tps]

    def commit(self, offsets=None, asynchronous=True, message=None):
        for tp in offsets:
            BROKER.seq += 1
            BROKER.log.append(("commit", self.group, tp.partition, tp.offset, BROKER.clock()))
            BROKER.committed[(self.group, tp.partition)] = tp.offset

    def list_topics(self, topic=None, timeout=None):
        md = types.SimpleNamespace()
        t = types.SimpleNamespace(partitions={i: None for i in range(len(BROKER.parts))})
        md.topics = {BROKER.topic: t}
        return md

    def close(self):
        self.closed = True

    def unsubscribe(self):
        pass


mod = types.ModuleType("confluent_kafka")
mod.Consumer = Consumer
mod.TopicPartition = TopicPartition
mod.KafkaException = KafkaException
mod.Message = Message


def install(broker):
    global BROKER
    BROKER = broker
    sys.modules["confluent_kafka"] = mod


def uninstall():
    global BROKER
    BROKER = None
    sys.modules.pop("confluent_kafka", None)
