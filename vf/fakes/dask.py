"""Fake distributed client (trusted fake, C20): task futures complete only on explorer
events, so every completion order a cluster could produce is enumerable.  scatter / gather
RPCs complete in FIFO order on the virtual loop."""
import itertools


class FFuture:
    def __init__(self, client, fn=None, args=(), kwargs=None, value=None, done=False):
        self.id = next(client._ids)
        self.client = client
        self.fn = fn
        self.args = args
        self.kwargs = kwargs or {}
        self.done_ = done
        self.value = value
        self.error = None
        self.key = "f%d" % self.id

    def __repr__(self):
        return "<FF %d %s>" % (self.id, "done" if self.done_ else "pending")


def walk(x):
    if isinstance(x, FFuture):
        yield x
    elif isinstance(x, (list, tuple, set)):
        for y in x:
            yield from walk(y)
    elif isinstance(x, dict):
        for y in x.values():
            yield from walk(y)


def resolve(x):
    if isinstance(x, FFuture):
        return x.value
    if isinstance(x, tuple):
        return tuple(resolve(y) for y in x)
    if isinstance(x, list):
        return [resolve(y) for y in x]
    if isinstance(x, dict):
        return {k: resolve(v) for k, v in x.items()}
    return x


class FakeClient:
    def __init__(self, vloop, ioloop):
        self.vloop = vloop
        self.loop = ioloop
        self._ids = itertools.count()
        self.tasks = []
        self.waiters = []
        self.calls = []

    def submit(self, fn, *args, **kwargs):
        f = FFuture(self, fn, args, kwargs)
        self.tasks.append(f)
        self.calls.append(("submit", f.id))
        return f

    def runnable(self):
        return [t for t in self.tasks if not t.done_ and all(d.done_ for d in walk((t.args, t.kwargs)))]

    def complete(self, t):
        deps = [d for d in walk((t.args, t.kwargs)) if getattr(d, "error", None) is not None]
        if deps:
            t.error = deps[0].error          # a failed dependency fails the task, as on a cluster
        else:
            try:
                t.value = t.fn(*resolve(list(t.args)), **resolve(t.kwargs))
            except Exception as e:   # noqa
                t.error = e
        t.done_ = True
        self._wake()

    def _wake(self):
        for w in list(self.waiters):
            needed, fut, payload = w
            if all(n.done_ for n in needed):
                self.waiters.remove(w)
                if not fut.done():
                    bad = [n for n in needed if getattr(n, "error", None) is not None]
                    if bad:
                        fut.set_exception(bad[0].error)
                    else:
                        fut.set_result(resolve(payload))

    def scatter(self, data, asynchronous=True, hash=False, **kw):
        self.calls.append(("scatter", hash))
        fut = self.vloop.create_future()
        out = [FFuture(self, value=x, done=True) for x in data]
        self.vloop.call_soon(fut.set_result, out)     # RPC completes on the next turn, FIFO
        return fut

    def gather(self, x, asynchronous=True, **kw):
        fut = self.vloop.create_future()
        needed = list(walk(x))
        self.waiters.append((needed, fut, x))
        self.vloop.call_soon(self._wake)
        return fut
