"""Virtual event loop and the seams through which the harness owns nondeterminism.

Nothing here touches /repo: module-level names of streamz / tornado are rebound
for the duration of one execution (`Env`) and restored afterwards.
"""
import asyncio
import gc
import heapq
import logging
import threading
from asyncio import events

from tornado.ioloop import IOLoop


class VLoop(asyncio.BaseEventLoop):
    """asyncio loop with virtual time that only advances / runs when stepped."""

    def __init__(self):
        super().__init__()
        self._vt = 0.0
        self.errors = []
        self.spinners = {}        # task -> True while suspended in a sleep(0) spin
        self.progress = 0         # counts env events + iterations in which a non-spinner handle ran
        self.spin_seen = 0        # progress value when the spinners last re-evaluated
        self.iterations = 0
        self._owner = threading.get_ident()
        self.set_exception_handler(self._on_error)

    def _on_error(self, loop, ctx):
        self.errors.append(ctx)

    # --- the loop's own API is not thread-safe: only call_soon_threadsafe may come from another thread ----
    def _foreign(self, what):
        if threading.get_ident() != self._owner:
            self.errors.append(dict(message="loop.%s() called from a thread other than the loop's own (only "
                                            "call_soon_threadsafe / add_callback may be)" % what))

    def call_soon(self, callback, *args, context=None):
        self._foreign("call_soon")
        return super().call_soon(callback, *args, context=context)

    def call_at(self, when, callback, *args, context=None):
        self._foreign("call_at")
        return super().call_at(when, callback, *args, context=context)

    def create_task(self, coro, **kw):
        self._foreign("create_task")
        return super().create_task(coro, **kw)

    # --- BaseEventLoop plumbing -------------------------------------------------
    def time(self):
        return self._vt

    def _write_to_self(self):
        pass

    def _process_events(self, ev):
        pass

    # --- spinners (map_async._wait_for_work_slot: `while full: await asyncio.sleep(0)`) ------
    # A spinning task keeps exactly one step handle in the ready queue, in its true
    # position (faithful to asyncio: no reordering against other handles).  The queue
    # counts as idle when it holds nothing but spinner steps *and* the spinners have
    # already re-evaluated their condition since the last change: re-evaluating again
    # would give the same answer, so not running them is sound, and counting their own
    # wake-ups as progress would spin forever.
    def spin(self):
        return _Spin(self)

    def note_progress(self):
        """an environment event happened: spinners must re-evaluate once"""
        self.progress += 1

    def _live_ready(self):
        return sum(1 for h in self._ready if not h._cancelled)

    # --- explicit stepping ---------------------------------------------------------
    def has_ready(self):
        n = self._live_ready()
        ns = len(self.spinners)
        if n > ns:
            return True
        return ns > 0 and self.spin_seen < self.progress

    def due(self):
        return any((not h._cancelled) and h._when <= self._vt for h in self._scheduled)

    def next_deadline(self):
        s = [h._when for h in self._scheduled if not h._cancelled]
        return min(s) if s else None

    def run_iteration(self):
        """One faithful asyncio iteration: move due timers to the ready queue,
        run exactly the handles that were ready at the start."""
        sched = self._scheduled
        while sched and sched[0]._cancelled:
            h = heapq.heappop(sched)
            h._scheduled = False
        while sched and sched[0]._when <= self._vt:
            h = heapq.heappop(sched)
            h._scheduled = False
            if not h._cancelled:
                self._ready.append(h)
        n = len(self._ready)
        live = self._live_ready()
        nspin = len(self.spinners)
        self.spin_seen = self.progress
        for i in range(n):
            h = self._ready.popleft()
            if h._cancelled:
                continue
            h._run()
        if live > nspin:
            self.progress += 1
        self.iterations += 1

    def advance(self):
        d = self.next_deadline()
        assert d is not None
        if d > self._vt:
            self._vt = d

    def advance_to(self, t):
        if t > self._vt:
            self._vt = t

    def drain(self, limit=5000):
        i = 0
        while self.has_ready() or self.due():
            self.run_iteration()
            i += 1
            if i > limit:
                raise Livelock("more than %d consecutive loop iterations" % limit)


class Livelock(Exception):
    pass


class HarnessError(Exception):
    """The harness lost control of nondeterminism (exit 2, never a verdict)."""


class _AsyncioProxy:
    """stand-in for the `asyncio` module inside streamz.core: sleep(0) parks."""

    def __init__(self, loop):
        self._loop = loop

    def __getattr__(self, k):
        return getattr(asyncio, k)

    def sleep(self, d, result=None):
        if d == 0:
            return self._loop.spin()
        return asyncio.sleep(d, result)


class _Spin:
    """awaitable equivalent to asyncio.sleep(0) (bare yield) that tells the loop the
    current task is spinning while it is suspended"""

    def __init__(self, loop):
        self.loop = loop

    def __await__(self):
        t = asyncio.current_task(self.loop)
        self.loop.spinners[t] = True
        try:
            yield
        finally:
            self.loop.spinners.pop(t, None)


class _LogTap(logging.Handler):
    def __init__(self):
        super().__init__(level=logging.WARNING)
        self.records = []

    def emit(self, record):
        exc = record.exc_info[1] if record.exc_info else None
        self.records.append((record.name, record.levelname, record.getMessage()[:200], exc))


_TAPPED = ("streamz.core", "streamz.sources", "streamz.dask", "tornado.application",
           "tornado.general", "asyncio", "streamz")


class Env:
    """Installs the virtual loop and all seams for one execution."""

    def __init__(self, spin_proxy=True):
        self.spin_proxy = spin_proxy

    def __enter__(self):
        import streamz.core as sc
        import streamz.sources as ss
        self.sc = sc
        self.ss = ss
        gc.disable()
        self.loop = VLoop()
        events._set_running_loop(self.loop)
        asyncio.set_event_loop(self.loop)
        self.ioloop = IOLoop.current()
        if getattr(self.ioloop, "asyncio_loop", None) is not self.loop:
            raise HarnessError("IOLoop.current() did not wrap the virtual loop")
        self._saved = dict(
            iotime=IOLoop.time, sctime=sc.time, scasyncio=sc.asyncio, ioloops=list(sc._io_loops),
        )
        loop = self.loop
        IOLoop.time = lambda s: s.asyncio_loop.time()
        sc.time = loop.time
        if self.spin_proxy:
            sc.asyncio = _AsyncioProxy(loop)
        sc._io_loops[:] = [self.ioloop]
        self.tap = _LogTap()
        self._loggers = []
        for name in _TAPPED:
            lg = logging.getLogger(name)
            self._loggers.append((lg, lg.propagate, list(lg.handlers), lg.level))
            lg.handlers = [self.tap]
            lg.propagate = False
        return self

    def background_errors(self):
        """Loop exception-handler contexts + warning/error log records."""
        out = []
        for ctx in self.loop.errors:
            exc = ctx.get("exception")
            out.append(("loop", type(exc).__name__ if exc else "", str(exc or ctx.get("message"))[:200], exc))
        for name, lvl, msg, exc in self.tap.records:
            out.append((name, type(exc).__name__ if exc else lvl, msg, exc))
        return out

    def collect_unretrieved(self):
        """Force 'exception was never retrieved' reports to reach the loop handler."""
        gc.collect()

    def __exit__(self, *a):
        sc = self.sc
        s = self._saved
        IOLoop.time = s["iotime"]
        sc.time = s["sctime"]
        sc.asyncio = s["scasyncio"]
        sc._io_loops[:] = s["ioloops"]
        for lg, prop, handlers, level in self._loggers:
            lg.handlers = handlers
            lg.propagate = prop
        # wind down: cancel every pending task and let the cancellations run, so that
        # nothing is finalised later against a dead loop ("Task was destroyed ...")
        self.loop.set_exception_handler(lambda l, c: None)
        try:
            for _ in range(5):
                tasks = [t for t in asyncio.all_tasks(self.loop) if not t.done()]
                if not tasks:
                    break
                for t in tasks:
                    t.cancel()
                for _ in range(20):
                    if not self.loop._ready:
                        break
                    self.loop.run_iteration()
            for h in list(self.loop._ready):
                h.cancel()
            self.loop._ready.clear()
            self.loop._scheduled.clear()
        except Exception:
            pass
        events._set_running_loop(None)
        IOLoop._ioloop_for_asyncio.pop(self.loop, None)
        # back to a pristine policy: set_event_loop(None) would leave this thread in the
        # "a loop was set and removed" state in which asyncio.get_event_loop() raises, and
        # synchronous checks running later in the same process create futures from plain code
        asyncio.set_event_loop_policy(None)
        try:
            from streamz.sinks import _global_sinks
            _global_sinks.clear()
        except Exception:
            pass
        gc.enable()
        return False
