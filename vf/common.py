"""Runner infrastructure shared by all checks: process pool, evidence writer,
known-findings matching, replay files."""
import json
import multiprocessing
import os
import random
import subprocess
import sys
import time

from . import REPO, VERIF

EVIDENCE_DIR = os.environ.get("VERIF_EVIDENCE_DIR") or os.path.join(VERIF, "evidence")
REPLAY_DIR = os.environ.get("VERIF_REPLAY_DIR") or os.path.join(VERIF, "replays")
KNOWN = os.path.join(VERIF, "known_findings.json")


class Ctx:
    def __init__(self, pid, tier, seed, jobs):
        self.pid = pid
        self.tier = tier
        self.seed = seed
        self.jobs = jobs
        self.rng = random.Random(seed)
        self.t0 = time.time()
        self._pool = None

    @property
    def thorough(self):
        return self.tier == "thorough"

    def pool(self):
        if self._pool is None:
            ctx = multiprocessing.get_context("fork")
            self._pool = ctx.Pool(self.jobs, initializer=_worker_init)
        return self._pool

    def pmap(self, fn, items, chunksize=1):
        """unordered parallel map; item order is permuted by the seed (coverage and
        verdict are order independent because enumeration is complete)"""
        items = list(items)
        self.rng.shuffle(items)
        if self.jobs <= 1 or len(items) <= 1:
            for it in items:
                yield fn(it)
            return
        for r in self.pool().imap_unordered(fn, items, chunksize):
            yield r

    def close(self):
        if self._pool is not None:
            self._pool.terminate()
            self._pool.join()
            self._pool = None


def _worker_init():
    import logging
    logging.disable(logging.NOTSET)
    import warnings
    warnings.filterwarnings("ignore")
    import gc
    gc.freeze()


def repo_head():
    try:
        h = subprocess.run(["git", "-C", REPO, "rev-parse", "--short", "HEAD"],
                           capture_output=True, text=True, timeout=10).stdout.strip()
        d = subprocess.run(["git", "-C", REPO, "status", "--porcelain", "--untracked-files=no"],
                           capture_output=True, text=True, timeout=10).stdout.strip()
        return h + ("+dirty" if d else "")
    except Exception:
        return "unknown"


class Finding:
    """one distinct violation signature found by a check"""

    def __init__(self, clause, site, detail, replay, summary, count=1, observed=None):
        self.clause = clause
        self.site = site
        self.detail = detail
        self.replay = replay        # dict written to the replay file
        self.summary = summary
        self.count = count
        self.observed = observed    # optional: must equal the known finding's 'observed'

    @property
    def sig(self):
        return (self.clause, self.site, self.detail)

    def sigstr(self):
        return "%s/%s[%s]" % self.sig


class Report:
    def __init__(self):
        self.findings = []
        self.coverage = {}
        self.assumptions = []
        self.exhaustive = True
        self.notes = []

    def add(self, f):
        for g in self.findings:
            if g.sig == f.sig:
                g.count += f.count
                return
        self.findings.append(f)


def load_known(pid):
    if not os.path.exists(KNOWN):
        return []
    with open(KNOWN) as f:
        data = json.load(f)
    return [e for e in data if e.get("property") == pid]


def match_known(finding, known):
    for e in known:
        if not str(e.get("status", "open")).startswith("open"):
            continue      # 'fixed: ...' entries suppress nothing
        s = e["signature"]
        if (s["clause"], s["site"], s["detail"]) != finding.sig:
            continue
        if "observed" in e and e["observed"] is not None and finding.observed is not None:
            if _canon(e["observed"]) != _canon(finding.observed):
                continue
        return e
    return None


def _canon(x):
    return json.dumps(x, sort_keys=True, default=str)


def finalize(ctx, report, level="model_checking"):
    """print KNOWN-FINDING / VIOLATION lines, write replay + evidence, return exit code"""
    known = load_known(ctx.pid)
    os.makedirs(EVIDENCE_DIR, exist_ok=True)
    os.makedirs(REPLAY_DIR, exist_ok=True)
    code = 0
    nviol = 0
    seen_known = []
    k = 0
    for f in report.findings:
        e = match_known(f, known)
        if e is not None:
            print("KNOWN-FINDING: property=%s %s %s (seen in %d cases this run)" % (
                ctx.pid, f.sigstr(), e.get("what", e.get("note", "")), f.count))
            seen_known.append(f.sigstr())
            continue
        k += 1
        nviol += 1
        path = os.path.join(REPLAY_DIR, "%s-%d.json" % (ctx.pid, k))
        rep = dict(f.replay or {})
        rep.update(property=ctx.pid, clause=f.clause, signature=list(f.sig), summary=f.summary,
                   seed=ctx.seed, tier=ctx.tier, repo_head=repo_head(), cases=f.count)
        with open(path, "w") as fh:
            json.dump(rep, fh, indent=1, default=str)
        print("  %s  x%d  %s" % (f.sigstr(), f.count, f.summary[:400]))
        print("VIOLATION property=%s replay=%s" % (ctx.pid, path))
        code = 1
    cov = dict(report.coverage)
    cov.setdefault("exhaustive", report.exhaustive)
    cov["known_findings_reobserved"] = seen_known
    cov["unlisted_violation_signatures"] = nviol
    ev = dict(property_id=ctx.pid, tier=ctx.tier, seed=ctx.seed, level=level, coverage=cov,
              assumptions=report.assumptions, wall_s=round(time.time() - ctx.t0, 2),
              violations=nviol, repo_head=repo_head(), notes=report.notes)
    with open(os.path.join(EVIDENCE_DIR, "%s.json" % ctx.pid), "w") as fh:
        json.dump(ev, fh, indent=1, default=str)
    print("%s tier=%s seed=%d: %s; wall %.1fs; exit %d" % (
        ctx.pid, ctx.tier, ctx.seed,
        " ".join("%s=%s" % (k2, cov[k2]) for k2 in ("evaluations", "states", "transitions", "distinct_nontrivial", "exhaustive") if k2 in cov),
        time.time() - ctx.t0, code))
    return code
