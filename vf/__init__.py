"""Bounded exhaustive model checking of python-streamz/streamz (see /verif/DESIGN.md)."""
import os
import sys

REPO = os.environ.get("VERIF_REPO", "/repo")
VERIF = os.path.dirname(os.path.dirname(os.path.abspath(__file__)))


def bind_repo():
    """Make `import streamz` resolve to $VERIF_REPO (default /repo) working tree."""
    if REPO not in sys.path[:1]:
        sys.path.insert(0, REPO)
    import streamz  # noqa
    here = os.path.dirname(os.path.abspath(streamz.__file__))
    want = os.path.join(os.path.realpath(REPO), "streamz")
    if os.path.realpath(here) != want:
        raise SystemExit("harness error: streamz imported from %s, expected %s" % (here, want))
    return streamz
