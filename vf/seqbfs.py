"""Engine Q: explicit-state breadth-first search over operation sequences on the real
(synchronous) pipeline objects, with the reference interpreter as oracle and canonical-state
deduplication.  A state is the history reaching it; for every frontier history h and every
operation op the real pipeline is rebuilt, h + [op] replayed, and the observable effect of the
last step compared with the reference step.
"""
import collections
import logging

from .refmodel import FUNCS, RefGraph, V, _fz

# program = tuple of items:
#   ("src", id)
#   ("node", id, spec, (upstream ids...))
#   ("connect", from_id, to_id)          feedback / late edge
# op = ("e", entry id, value, k)  emit value with k metadata dicts (mode md) / a counter (mode rc)
#      ("f", node id)             flush a collect node


class Rec:
    pass


SKIPMD = object()      # observation that carries no metadata (a file write)


def _mk_rec_class():
    from streamz import Stream

    class RecNode(Stream):
        def __init__(self, up, nid, log):
            self.nid = nid
            self.log = log
            Stream.__init__(self, up)

        def update(self, x, who=None, metadata=None):
            self.log.append((self.nid, x, metadata))
    return RecNode


_REC = None


def rec_class():
    global _REC
    if _REC is None:
        _REC = _mk_rec_class()
    return _REC


def build_real(prog, log):
    import streamz
    from streamz import Stream
    import streamz.core as sc
    RecNode = rec_class()
    nodes = {}
    recs = {}
    for item in prog:
        if item[0] == "src":
            nodes[item[1]] = Stream()
        elif item[0] == "node":
            _, nid, spec, ups = item
            u = [nodes[x] for x in ups]
            k = spec[0]
            if k == "map":
                n = u[0].map(FUNCS[spec[1]])
            elif k == "mapargs":
                n = u[0].map(FUNCS["addk"], 5, k=10)
            elif k == "starmapkw":
                n = u[0].starmap(FUNCS["add3"], c=100)
            elif k == "starmapargs":
                n = u[0].starmap(FUNCS["add3"], 100)
            elif k == "filtername":
                n = u[0].filter(FUNCS["odd1"], stream_name="f")
            elif k == "accnone":
                n = u[0].accumulate(FUNCS["accn"], start=None)
            elif k == "accrsws":
                n = u[0].accumulate(FUNCS["accrs"], start=0, returns_state=True, with_state=True)
            elif k == "filterargs":
                n = u[0].filter(FUNCS["gtk"], 1, hi=2)
            elif k == "accwsns":
                n = u[0].accumulate(FUNCS["accw"], w=2, with_state=True)            # no start: the first element is the state
            elif k == "flattenview":
                n = u[0].map(FUNCS["mkview"]).flatten()                               # elements that are iterable but not sequences
            elif k == "freq":
                n = u[0].frequencies()
            elif k == "accws":
                n = u[0].accumulate(FUNCS["accw"], start=0, w=2, with_state=True)
            elif k == "pkey":
                n = u[0].partition(2, key=0)
            elif k == "starmap":
                n = u[0].starmap(FUNCS[spec[1]])
            elif k == "remove":
                n = u[0].remove(FUNCS[spec[1]])
            elif k == "filter":
                n = u[0].filter(None if spec[1] == "none" else FUNCS[spec[1]])
            elif k == "acc":
                _, f, start, rs = spec
                kw = {}
                if start is not None:
                    kw["start"] = start
                if rs:
                    kw["returns_state"] = True
                n = u[0].accumulate(FUNCS[f], **kw)
            elif k == "slice":
                n = u[0].slice(spec[1], spec[2], spec[3])
            elif k == "partition":
                n = u[0].partition(spec[1], key=None if spec[2] is None else FUNCS[spec[2]])
            elif k == "punique":
                n = u[0].partition_unique(spec[1], key=0 if spec[2] == "idx0" else FUNCS[spec[2]], keep=spec[3])
            elif k == "sw":
                n = u[0].sliding_window(spec[1], return_partial=spec[2])
            elif k == "unique":
                n = u[0].unique(maxsize=spec[1], key=FUNCS[spec[2]], hashable=spec[3])
            elif k == "flatten":
                n = u[0].flatten()
            elif k == "pluck":
                n = u[0].pluck(list(spec[1]) if isinstance(spec[1], tuple) else spec[1])
            elif k == "collect":
                n = u[0].collect()
            elif k == "sinktxt":
                # sink_to_textfile on a file-like object: every write is an observation
                class _W:
                    def __init__(self, nid):
                        self.nid = nid

                    def write(self, text):
                        FUNCS["txtwrite"](text)          # (a write can fail like any user function: fault injection point)
                        log.append((self.nid, text, SKIPMD))

                    def close(self):
                        pass
                n = u[0].map(str).sink_to_textfile(_W(item[1]), end="|")
            elif k == "sinkf":
                n = u[0].sink(FUNCS[spec[1]], "t", k=1) if spec[1] == "rec3" else u[0].sink(FUNCS[spec[1]])
            elif k == "union":
                n = sc.union(*u)
            elif k == "zip":
                args = list(u)
                for pos, val in spec[1]:
                    args.insert(pos, val)
                n = sc.zip(*args)
            elif k == "cl":
                eo = spec[1]
                if eo is None:
                    n = sc.combine_latest(*u)
                elif spec[2] == "stream":
                    n = sc.combine_latest(*u, emit_on=u[eo[0]])
                elif len(eo) == 1 and spec[2] == "int":
                    n = sc.combine_latest(*u, emit_on=eo[0])
                elif spec[2] == "tuple":
                    n = sc.combine_latest(*u, emit_on=tuple(u[i] for i in eo))       # any iterable of streams, not only a list
                elif spec[2] == "streams":
                    n = sc.combine_latest(*u, emit_on=[u[i] for i in eo])
                else:
                    n = sc.combine_latest(*u, emit_on=list(eo))
            elif k == "zl":
                n = sc.zip_latest(*u)
            else:
                raise KeyError(k)
            nodes[nid] = n
        elif item[0] == "connect":
            nodes[item[1]].connect(nodes[item[2]])
            continue
        else:
            raise KeyError(item)
        nid = item[1]
        recs[nid] = RecNode(nodes[nid], nid, log)
    return nodes, recs


def build_ref(prog):
    g = RefGraph()
    for item in prog:
        if item[0] == "src":
            g.add(item[1], ("src",))
        elif item[0] == "node":
            spec = item[2]
            if spec[0] == "cl":
                spec = ("cl", spec[1])
            g.add(item[1], spec, item[3])
        elif item[0] == "connect":
            g.down[item[1]].append(item[2])
            g.up[item[2]].append(item[1])
    return g


class _CbLoop:
    def add_callback(self, cb, *a):
        cb(*a)


class _Run:
    """one replay of a history on fresh real + reference pipelines"""

    def __init__(self, prog, mode):
        self.prog = prog
        self.mode = mode
        self.log = []
        self.nodes, self.recs = build_real(prog, self.log)
        self.ref = build_ref(prog)
        self.eid = 0
        self.mds = {}       # eid -> list of dicts
        self.rcs = {}       # eid -> counter
        self.hist = {}      # eid -> list of counts
        self.fired = collections.Counter()
        self.failed = set()
        self.kept = []
        self.kept_md = []

    def _metadata(self, k):
        from streamz import RefCounter
        eid = self.eid
        if self.mode == "md":
            md = [{"id": (eid, j)} for j in range(k)]
            self.mds[eid] = md
            return md if k else None
        if self.mode == "rc":
            run = self

            class RC(RefCounter):
                def retain(s, n=1):
                    RefCounter.retain(s, n)
                    run.hist[eid].append(s.count)

                def release(s, n=1):
                    RefCounter.release(s, n)
                    run.hist[eid].append(s.count)

            def cb():
                run.fired[eid] += 1
            self.hist[eid] = []
            rc = RC(cb=cb, loop=_CbLoop())
            self.rcs[eid] = rc
            md = [{"ref": rc, "id": (eid, 0)}]
            self.mds[eid] = md
            return md
        self.mds[eid] = []
        return None

    def apply(self, op, check):
        """returns None or (clause, node id, info)"""
        self.log.clear()
        exp = []
        if op[0] == "e":
            entry, x, k = op[1], op[2], op[3]
            target = op[4] if len(op) > 4 else 0
            md = self._metadata(k)
            eid = self.eid
            self.eid += 1
            from .refmodel import FAULT, Boom
            FAULT.arm(target)
            ref_failed = False
            snap = self.ref.snapshot()
            try:
                self.ref.emit(entry, V(x, (eid,)), exp)
            except RecursionError:
                FAULT.arm(0)
                return ("reference-diverges", entry, "feedback without a fixed point: not a valid program")
            except Boom:
                ref_failed = True
            ref_calls = FAULT.count
            alt = None
            if ref_failed:
                # second admissible behaviour: failure carried by an awaitable, siblings continue
                after_abort = self.ref.snapshot()
                self.ref.restore(snap)
                self.ref.continue_mode = True
                self.ref.boomed = False
                FAULT.arm(target)
                alt_exp = []
                try:
                    self.ref.emit(entry, V(x, (eid,)), alt_exp)
                except Boom:
                    pass
                self.ref.continue_mode = False
                alt = (alt_exp, self.ref.snapshot())
                self.ref.restore(after_abort)
            FAULT.arm(target)
            raised = None
            try:
                if md is None:
                    self.nodes[entry].emit(x)
                else:
                    self.nodes[entry].emit(x, metadata=md)
            except Exception as e:   # noqa
                raised = e
            injected = FAULT.raised
            FAULT.arm(0)
            if ref_failed:
                self.failed.add(eid)
            if target and not ref_failed:
                return ("no-such-invocation", entry, ref_calls)      # alphabet entry not applicable here
            if ref_failed and alt is not None:
                got_now = [(n, _fz(v)) for n, v, m in self.log]
                if got_now != [(n, _fz(v.val)) for n, v in exp] and got_now == [(n, _fz(v.val)) for n, v in alt[0]]:
                    exp[:] = alt[0]
                    self.ref.restore(alt[1])
            if check and ref_failed:
                if raised is None:
                    return ("not-raised", self._first_div(exp), dict(injected=repr(injected)))
                if raised is not injected:
                    return ("wrong-exception", self._first_div(exp), dict(raised=repr(raised)[:120], injected=repr(injected)))
            elif raised is not None:
                if check:
                    return ("exception", self._first_div(exp), "%s: %s" % (type(raised).__name__, str(raised)[:120]))
                return None
        else:
            _, nid = op
            self.ref.flush(nid, exp)
            try:
                self.nodes[nid].flush()
            except Exception as e:   # noqa
                if check:
                    return ("exception", nid, "%s: %s" % (type(e).__name__, str(e)[:120]))
                return None
        if not check:
            return None
        got = [(n, _fz(v)) for n, v, m in self.log]
        want = [(n, _fz(v.val)) for n, v in exp]
        # what was handed on earlier stays what it was (a mutable batch the node keeps using would change)
        for n0, obj, frozen in self.kept:
            if _fz(obj) != frozen:
                return ("delivered-object-changed-later", n0, dict(delivered=frozen, now=_fz(obj)))
        for n0, mobj, ids in self.kept_md:
            if [id(d) for d in mobj] != ids:
                return ("delivered-metadata-changed-later", n0, dict(entries_when_delivered=len(ids), entries_now=len(mobj)))
        for n, v, m in self.log:
            if isinstance(v, (list, dict)):
                self.kept.append((n, v, _fz(v)))
            if self.mode == "md" and isinstance(m, list) and m:
                self.kept_md.append((n, m, [id(d) for d in m]))
        if got != want:
            clause = "sibling-order" if sorted(map(repr, got)) == sorted(map(repr, want)) else "value"
            return (clause, self._first_div(exp), dict(got=got[:12], want=want[:12]))
        if self.mode == "md":
            for (n, v, m), (n2, ev) in zip(self.log, exp):
                if m is SKIPMD:
                    continue
                wantmd = [d for e in ev.prov for d in self.mds[e]]
                if not (isinstance(m, list) and all(isinstance(d, dict) for d in m)):
                    return ("md-shape", n, dict(value=_fz(v), metadata=repr(m)[:120]))
                if [d.get("id") for d in m] != [d["id"] for d in wantmd]:
                    return ("md-content", n, dict(value=_fz(v), got=[d.get("id") for d in m], want=[d["id"] for d in wantmd]))
                if any(a is not b for a, b in zip(m, wantmd)):
                    return ("md-identity", n, dict(value=_fz(v)))
        if self.mode == "rc":
            held = self.ref.held()
            for e in self.failed:
                if self.fired[e]:
                    return ("callback-on-failed", self._holder_site(e), dict(element=e, history=self.hist[e], fired=self.fired[e]))
            for e, rc in self.rcs.items():
                if self.failed:
                    break       # partial retains of a failed push make exact accounting undefined
                h = self.hist[e]
                if any(c < 0 for c in h):
                    return ("negative", self._holder_site(e), dict(element=e, history=h))
                z = [i for i, c in enumerate(h) if c == 0]
                if z and any(c > 0 for c in h[z[0]:]):
                    return ("rise-after-zero", self._holder_site(e), dict(element=e, history=h))
                if rc.count != held[e]:
                    return ("count!=holders", self._holder_site(e), dict(element=e, count=rc.count, holders=held[e], history=h))
                if held[e] == 0 and self.fired[e] != 1:
                    return ("callback-missing" if self.fired[e] == 0 else "callback-twice", self._holder_site(e),
                            dict(element=e, fired=self.fired[e], history=h))
        return None

    def _first_div(self, exp):
        got = [(n, _fz(v)) for n, v, m in self.log]
        want = [(n, _fz(v.val)) for n, v in exp]
        for i in range(max(len(got), len(want))):
            g = got[i] if i < len(got) else None
            w = want[i] if i < len(want) else None
            if g != w:
                return (w or g)[0]
        return want[-1][0] if want else (got[-1][0] if got else None)

    def _holder_site(self, e):
        """the most downstream stateful node the element has entered"""
        best = None
        for item in self.prog:
            if item[0] == "node" and item[2][0] in ("partition", "pkey", "punique", "sw", "collect", "zip", "cl", "zl", "unique", "filter", "slice", "flatten"):
                best = item[1]
        return best

    def key(self):
        snap = []
        for nid, n in self.nodes.items():
            snap.append((nid, _snap(vars(n), self)))
        counts = tuple(sorted((e, rc.count) for e, rc in self.rcs.items()))
        return (self.ref.key(), tuple(snap), counts)

    def close(self):
        for r in self.recs.values():
            r.destroy()
        # sink nodes of the program (sink(f), sink_to_textfile) are registered in streamz.sinks._global_sinks for good:
        # let go of them, or every pipeline ever built stays alive for the whole run
        from streamz.sinks import _global_sinks
        for n in self.nodes.values():
            _global_sinks.discard(n)


_SKIP = {"upstreams", "downstreams", "loop", "asynchronous", "name", "current_value", "current_metadata", "func",
         "predicate", "args", "kwargs", "key", "_key", "emit_on", "_initial_emit_on", "literals", "_condition",
         "lossless", "n", "partial", "maxsize", "keep", "returns_state", "with_state", "star", "end", "step", "pick"}


def _snap(d, run):
    out = []
    for k in sorted(d):
        if k in _SKIP:
            continue
        out.append((k, _canon(d[k], run)))
    return tuple(out)


def _canon(x, run):
    from streamz import Stream, RefCounter
    if isinstance(x, (int, float, str, bool, type(None))):
        return x
    if isinstance(x, RefCounter):
        return ("rc", x.count)
    if isinstance(x, Stream):
        return ("stream", getattr(x, "nid", None) or type(x).__name__)
    if isinstance(x, dict):
        if "id" in x and len(x) <= 2:
            return ("md", x["id"])
        return tuple((_canon(k, run), _canon(v, run)) for k, v in x.items())
    if isinstance(x, (list, tuple, collections.deque)):
        return tuple(_canon(y, run) for y in x)
    if isinstance(x, (set, frozenset)):
        return tuple(sorted(repr(_canon(y, run)) for y in x))
    try:
        return ("lru", tuple(_canon(k, run) for k in list(x.keys())), repr(list(getattr(x, "order", ()))))
    except Exception:
        return _ADDR.sub("", repr(x))        # (an object's address is not part of the state)


_ADDR = __import__("re").compile(r" at 0x[0-9a-f]+")


def bfs(prog, alphabet, depth, mode, max_states=None):
    """returns dict(states, transitions, runs, depth_reached, exhausted, violations=[(clause, nid, info, history)])"""
    logging.disable(logging.CRITICAL)
    try:
        seen = set()
        frontier = [()]
        viol = {}
        runs = transitions = 0
        nontrivial = 0
        try:
            r0 = _Run(prog, mode)
        except Exception as e:   # noqa
            return dict(states=1, transitions=1, runs=1, depth=0, exhausted=True, frontier_empty=True, nontrivial=0,
                        violations=[("exception", _first_node(prog), "construction raised %s: %s" % (type(e).__name__, str(e)[:120]), ())])
        seen.add(r0.key())
        r0.close()
        reached = 0
        exhausted = True
        for d in range(depth):
            nxt = []
            for hist in frontier:
                for op in alphabet:
                    try:
                        run = _Run(prog, mode)
                    except Exception as e:   # noqa: building the pipeline itself failed
                        viol.setdefault(("exception", "construct"), ("exception", _first_node(prog), "construction raised %s: %s" % (type(e).__name__, str(e)[:120]), hist + (op,)))
                        continue
                    bad = False
                    for h in hist:
                        if run.apply(h, False) is not None:
                            bad = True
                            break
                    if bad:
                        run.close()
                        continue
                    try:
                        v = run.apply(op, True)
                    except Exception as e:   # noqa
                        # the pipeline did something the comparison cannot digest (never on the unchanged tree): a violation
                        v = ("unexpected-behaviour", _first_node(prog), "%s: %s" % (type(e).__name__, str(e)[:160]))
                    runs += 1
                    transitions += 1
                    if v is not None:
                        if v[0] in ("reference-diverges", "no-such-invocation"):
                            run.close()
                            continue
                        sig = (v[0], v[1])
                        if sig not in viol:
                            viol[sig] = (v[0], v[1], v[2], hist + (op,))
                        run.close()
                        continue
                    try:
                        k = run.key()
                    except Exception as e:   # noqa
                        viol.setdefault(("unexpected-behaviour", "key"), ("unexpected-behaviour", _first_node(prog),
                                                                          "state snapshot failed: %s: %s" % (type(e).__name__, str(e)[:160]), hist + (op,)))
                        run.close()
                        continue
                    run.close()
                    if k not in seen:
                        seen.add(k)
                        nxt.append(hist + (op,))
                        if any(st not in (None, (), 0) for _, st in k[0]):
                            nontrivial += 1
                    if max_states and len(seen) >= max_states:
                        exhausted = False
                        break
                if not exhausted:
                    break
            if not exhausted:
                break
            frontier = nxt
            reached = d + 1
            if not frontier:
                break
        return dict(states=len(seen), transitions=transitions, runs=runs, depth=reached, exhausted=exhausted,
                    frontier_empty=not frontier, nontrivial=nontrivial, violations=list(viol.values()))
    finally:
        logging.disable(logging.NOTSET)


def _first_node(prog):
    for item in prog:
        if item[0] == "node":
            return item[1]
    return prog[0][1]


def replay_history(prog, hist, mode):
    logging.disable(logging.CRITICAL)
    try:
        try:
            run = _Run(prog, mode)
        except Exception as e:   # noqa
            return ("exception", _first_node(prog), "construction raised %s" % type(e).__name__)
        if not hist:
            run.close()
            return None
        for h in hist[:-1]:
            run.apply(h, False)
        v = run.apply(hist[-1], True)
        run.close()
        return v
    finally:
        logging.disable(logging.NOTSET)
