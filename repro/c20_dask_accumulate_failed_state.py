"""Recorded finding C20: one failing task poisons Dask accumulate's state (real in-process cluster, public API only).
Exits 1 while the defect is present."""
import asyncio
from distributed import Client
from streamz import Stream


def f(st, x):
    if x == 2:
        raise ZeroDivisionError("boom")
    return st + x


async def run(dask):
    s = Stream(asynchronous=True)
    node = s.scatter().accumulate(f, start=0).gather() if dask else s.accumulate(f, start=0)
    L = node.sink_to_list()
    for x in (1, 2, 3):
        try:
            await asyncio.wait_for(s.emit(x), 30)
        except ZeroDivisionError:
            pass
    await asyncio.sleep(0.5)
    return L


async def main():
    local = await run(False)
    async with Client(processes=False, n_workers=1, threads_per_worker=1, dashboard_address=None, asynchronous=True):
        dask = await run(True)
    print("local", local, "dask", dask)
    assert dask == local, (dask, local)

asyncio.run(main())
