"""Recorded finding C11 (expanding().sum() on a prefix that is all NaN): 0.0 where pandas gives NaN.
Exits 1 while the defect is present."""
import numpy as np
import pandas as pd
from streamz import Stream
from streamz.dataframe import DataFrame

df = pd.DataFrame({"x": [np.nan, np.nan]})
s = Stream()
sdf = DataFrame(s, example=df.iloc[:1])
L = sdf.x.expanding().sum().stream.sink_to_list()
s.emit(df)
got = float(np.asarray(L[-1]).ravel()[-1])
want = float(df.x.expanding().sum().iloc[-1])
print("streaming", got, "pandas", want)
assert (got != got) == (want != want), (got, want)
