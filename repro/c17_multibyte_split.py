import asyncio, os, tempfile
from streamz import Stream
async def main():
    d = tempfile.mkdtemp(); p = os.path.join(d, 'f.txt')
    open(p, 'wb').close()
    w = open(p, 'ab')
    s = Stream.from_textfile(p, poll_interval=0.05, asynchronous=True)
    L = s.sink_to_list(); s.start()
    b = 'é\nx\n'.encode()
    w.write(b[:1]); w.flush()
    await asyncio.sleep(0.3)
    w.write(b[1:]); w.flush()
    await asyncio.sleep(0.5)
    print('emitted', L)
    assert L == ['é\n', 'x\n'], L
asyncio.run(main())
