"""Recorded finding C05 (latest): the element delivered last keeps its reference until another
element replaces it.  Plain public API, no harness.  Exits 1 while the defect is present."""
import asyncio
from streamz import Stream, RefCounter


async def main():
    fired = []
    s = Stream(asynchronous=True)
    L = s.latest().sink_to_list()
    rc = RefCounter(cb=lambda: fired.append(1))
    await s.emit(1, metadata=[{"ref": rc}])
    await asyncio.sleep(0.2)
    print("delivered", L, "count", rc.count, "callbacks", len(fired))
    assert L == [1]
    assert rc.count == 0 and fired == [1], "delivered element still retained: count=%d" % rc.count

asyncio.run(main())
