"""Recorded finding C11 (ewm().mean() with NaN rows): the streaming value stays NaN once a NaN row
has been folded in, pandas skips missing observations.  Exits 1 while the defect is present."""
import numpy as np
import pandas as pd
from streamz import Stream
from streamz.dataframe import DataFrame

df = pd.DataFrame({"x": [1.0, np.nan, 2.0]})
s = Stream()
sdf = DataFrame(s, example=df.iloc[:1])
L = sdf.x.ewm(com=1).mean().stream.sink_to_list()
s.emit(df)
got = float(np.asarray(L[-1]).ravel()[-1])
want = float(df.x.ewm(com=1).mean().iloc[-1])
print("streaming", got, "pandas", want)
assert abs(got - want) < 1e-9, (got, want)
