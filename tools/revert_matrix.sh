#!/bin/bash
# For every "fix:" commit in /repo: revert it in a scratch worktree (outside /repo and /verif),
# run the checks expected to notice, print their exit codes and first violation signatures.
# usage: tools/revert_matrix.sh [out file]
OUT=${1:-/tmp/revert_matrix.txt}
: > $OUT
declare -A MAP=(
 [31e9355]="C14" [aff1cc5]="C01" [2e00e31]="C03" [5e2fb09]="C10 C05" [a71ac56]="C05" [603f1ee]="C04"
 [d0e1d57]="C15" [ade66a5]="C19" [934ccf8]="C18" [f24432d]="C06 C07" [8e61582]="C02" [10339b8]="C03"
 [58131c4]="C04 C09 C16" [042d813]="C04" [0e9b858]="C18" [641b50a]="C20" [77afcfd]="C15" [420bba5]="C19"
 [df0328c]="C01" [d79c306]="C05" [6a3cf3b]="C02" [a60d135]="C07" [2ba857c]="C11" [3b400f7]="C11 C12"
 [b0c91be]="C03 C16" [79ee77b]="C06 C07" [d5b8e64]="C20" [5b398e3]="C06" [1b41132]="C18"
)
for c in $(git -C /repo log --format=%h --grep='^fix:' 68bdab6..HEAD); do
  ids=${MAP[$c]:-}
  [ -z "$ids" ] && { echo "$c (no mapping)" >> $OUT; continue; }
  D=$(mktemp -d /tmp/rev_XXXXXX)
  git -C /repo worktree add -q --detach "$D/repo" HEAD
  if ( cd "$D/repo" && git diff $c $c~1 | git apply --3way --whitespace=nowarn 2>/dev/null ); then
    for id in $ids; do
      [ -f /verif/vf/props/${id,,}.py ] || { echo "$c $id: no check yet" >> $OUT; continue; }
      VERIF_REPO="$D/repo" VERIF_EVIDENCE_DIR="$D/ev" VERIF_REPLAY_DIR="$D/rp" /venv/bin/python -m vf.run $id > "$D/out.txt" 2>&1
      rc=$?
      echo "$c $(git -C /repo log --format=%s -1 $c | cut -c1-50) | $id exit=$rc | $(grep -E '^  [a-z]' $D/out.txt | head -3 | cut -c1-90 | tr '\n' ';')" >> $OUT
    done
  else
    echo "$c: reverse patch does not apply cleanly on HEAD (later fixes overlap)" >> $OUT
  fi
  git -C /repo worktree remove --force "$D/repo"; rm -rf "$D"
done
echo DONE >> $OUT
