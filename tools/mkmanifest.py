#!/usr/bin/env python3
"""Regenerates /verif/MANIFEST.json from the table below (single source of truth)."""
import json
import os

HERE = os.path.dirname(os.path.dirname(os.path.abspath(__file__)))
PY = "/venv/bin/python"

ENGINES = {
    "sched": ("vf/sched.py", "stateless deviation-bounded exhaustive schedule exploration of the real implementation on a virtual event loop (iterative context bounding)"),
    "seqbfs": ("vf/seqbfs.py", "explicit-state breadth-first search over operation sequences on the real objects, canonical-state deduplication, reference interpreter as oracle"),
    "frames": ("vf/frames.py", "exhaustive enumeration of small tables x all batch splits on the real streaming dataframe pipeline, pandas as reference model"),
    "config": ("vf/props/c19.py", "exhaustive enumeration of construction configurations against a reference binding function"),
}

# id -> (engine, technique, level text, level note, design ref)
CHECKS = {}
NOT_YET = {}


def claim(pid, engine, technique, text, note, ref):
    CHECKS[pid] = (engine, technique, text, note, ref)


claim("C14", "sched",
      "bounded exhaustive schedule enumeration (ICB, deviations<=2 quick / <=3 thorough) of the real latest node on a virtual loop",
      "Every interleaving of arrivals, loop iterations and consumer completions (1-2 bursting producers, 3-5 elements, four consumer kinds; element values that compare equal, the same object arriving again, None, arrivals around a long idle period; a second latest() pipeline alongside) "
      "within the deviation bound is executed against the real node; subsequence / no-duplicate are checked after every step, newest-delivered after a deterministic closing phase.",
      "virtual event loop (callbacks take zero time), consumer completion is a harness-owned future; bounds: <=5 elements, <=3 deviations",
      "DESIGN.md §3 C14")

claim("C13", "sched",
      "bounded exhaustive schedule enumeration (ICB) of rate_limit / delay on a virtual clock, 0.5 arrival grid",
      "Every schedule of 1-2 producers (awaiting or bursting; also into two upstream streams of one node), clock ticks on a half- or quarter-interval grid (intervals 1, 0.5, '1s', '500ms', '1500ms'), a consumer that rejects one element, loop iterations and consumer completions within the deviation bound is run "
      "against the real nodes; spacing >= interval, arrival order, no loss/duplicate and idle=>immediate are evaluated on virtual delivery times after every step.",
      "virtual clock (time()/IOLoop.time() rebound; callbacks take zero time); <=4 elements; deviations <=1 (<=2 on the smallest scenario in thorough); delay is only held to order and count, as the statement says",
      "DESIGN.md §3 C13")

claim("C08", "sched",
      "bounded exhaustive schedule enumeration (ICB) of timed_window / timed_window_unique / partition(timeout) on a virtual clock",
      "Every schedule of bursting arrivals on a half-interval grid, timer expirations and consumer completions within the deviation bound is run against the real nodes; "
      "window contents are reconstructed from the observation log (no model of the timer needed): conservation, order, size, keep-first/last, deadline incl. blocked time, no spurious batch.",
      "virtual clock; interval/timeout 1.0, 0.5, '500ms', '1s'; <=4 elements incl. a falsy one; n in {1,2,3}; keys by function and by index; deviations <=1 quick, <=2 thorough (sync consumer)",
      "DESIGN.md §3 C08")

claim("C02", "sched",
      "bounded exhaustive schedule enumeration (ICB) of lossless asynchronous pipelines on a virtual loop, three consumer kinds",
      "For every pipeline (one or two of buffer/delay/rate_limit/map_async/timed_window/partition(timeout), zip/union of two branches) x consumer kind "
      "(future, native coroutine object, gen.coroutine) every schedule of emits, loop iterations, consumer/mapped-coroutine completions in any order and timers "
      "within the deviation bound is executed on the real nodes; what the sink received, flattened, must be a prefix of the producer sequence at every step and equal to it after the closing phase; no emit raises, no background error.",
      "virtual event loop; <=4 elements, 1-2 producers, deviations <=1 (quick) / <=2 (thorough, single nodes); mapped function is identity behind a harness gate",
      "DESIGN.md §3 C02")

claim("C03", "sched",
      "bounded exhaustive schedule enumeration (ICB): emit completion vs consumer completion, occupancy bounds, liveness after closing",
      "Plain pass-through nodes alone and behind buffer (flatten with one, two and three pieces per element, every order in which their consumers finish), buffer(n)/zip(maxsize=n)/map_async(n) for n in 1..3, 2- and 3-input zip, awaiting and bursting producers: "
      "(a) evaluated at the action in which an emit awaitable completes, (b) accepted-but-not-handed-on <= n at every step, (c) no pending emit / queued element after all consumers completed.",
      "asynchronous mode on the virtual loop and threaded mode (blocking emit from 1-2 real threads under a baton, the explorer playing the loop thread; a bounded Event.wait expires once); elements with and without checkpoint counters; n<=3; deviations <=1 quick / <=2 thorough; map_async bound n+1 as pinned by test_map_async",
      "DESIGN.md §3 C03")

claim("C04", "sched",
      "bounded exhaustive schedule enumeration (ICB) with instrumented reference counters and a log-derived holder model",
      "For each node that can hold data (buffer, delay, rate_limit, map_async, timed_window(_unique), partition(size/timeout), partition_unique, latest, sliding_window, collect, "
      "zip, combine_latest, zip_latest, direct, map) in front of a gated consumer, every schedule of emits, completions, *failures* of consumers / mapped functions and timers within the "
      "deviation bound is run on the real nodes; at the log position of every release that brings a counter to zero the element must not be held inside the node, must not be in a batch a consumer is still handling, and its processing must not have raised.",
      "virtual event loop; 2-4 elements; metadata of one dict, of two dicts of which one has no counter, counters created with initial=1; one or two asynchronous consumers; one holding node per scenario plus pairs of lossless buffering nodes; deviations <=1 quick, <=2 thorough",
      "DESIGN.md §3 C04")

claim("C05", "sched+seqbfs",
      "bounded exhaustive schedule enumeration (timing nodes) + explicit-state BFS over input sequences (synchronous nodes), instrumented counters vs reference holders",
      "Schedule half: the C04 scenarios, with count == number of legitimate holders evaluated at every quiescent point without a pending consumer, never negative, never rising after zero, "
      "callback exactly once for everything that left or was dropped.  Sequence half: see seqbfs (C01 program space with a counter on every element).",
      "virtual event loop; bounds as C04; known finding: latest keeps the delivered element's reference until replaced (test-pinned)",
      "DESIGN.md §3 C05")

claim("C18", "sched",
      "bounded exhaustive enumeration of start/stop histories at every suspension point of the real sources (ICB on a virtual clock)",
      "from_periodic, from_iterable (iterator), from_textfile and from_q with gated and synchronous consumers (also two consumers, two sources behind one node whose start()/stop() is called, a polled callable that fails once, sources constructed with start=True, lifecycle calls made from another thread): every history of <= L start/stop calls (calls are deviation-free, so start();stop();start() "
      "in one loop turn is covered) placed before the first cycle, during the sleep, during a backpressured emit and between items, interleaved with consumer completions and ticks; "
      "oracle: no two cycles within one interval / no item twice or out of order / none lost, no cycle begins while stopped, next item only after downstream finished, a started source does poll.",
      "virtual loop and clock, sources given the loop explicitly; L<=4 quick / 5 thorough; deviations <=1 (other events)",
      "DESIGN.md §3 C18")

claim("C17", "sched",
      "exhaustive enumeration of texts x chunkings x poll placements (explorer over write/tick events) on the real sources",
      "from_textfile: every text over a tiny alphabet (records may contain single characters of a multi-character delimiter; delimiters that overlap themselves, regex-special delimiters, other line-boundary characters inside records), every composition of it into write chunks, every placement of polls "
      "between writes, from_end on/off with pre-existing content; emitted records must be a prefix of the complete records of what has been written at every step and equal to them at the end, tail withheld. "
      "filenames: every creation order x glob answer permutation x poll placement, patterns in one directory, across directories and a plain directory path, stop()/start() between polls; each path once, sorted per poll.",
      "in-memory append-only file object (trusted fake) in quick plus a few real temp files; thorough adds byte-level chunkings of real files with a two-byte UTF-8 character; fake directory behind the glob seam; text length <= 6 (quick) / 8 (thorough)",
      "DESIGN.md §3 C17")

claim("C09", "sched",
      "bounded exhaustive schedule enumeration with a crash at every choice point, real from_kafka_batched against an in-memory broker",
      "Production histories over 1-3 partitions (incl. one or two partitions added with refresh_partitions, pre-existing committed offsets, reset earliest/latest/default, a backlog in every partition, keys=True, max_batch_size 1/2/10, a transient committed() failure, a partition whose watermark query fails), "
      "synchronous / buffered / directly connected asynchronous consumers completing in any order; every step: auto-commit off, ranges contiguous, non-overlapping, start at committed/reset position, "
      "<= watermark, <= max_batch_size, commit(o) only for a completely processed batch ending at o-1; after the crash a second life with the same group must redeliver everything not completely processed.",
      "trusted fake broker (commits durable when requested); <=4 messages; deviations <=1; redelivery demanded only when the group has a position and batches completed in order (as the statement allows)",
      "DESIGN.md §3 C09")

claim("C20", "sched",
      "bounded exhaustive enumeration of task-completion orders of the real DaskStream nodes against a fake client, local pipeline as reference",
      "34 one-source, 6 two-source and 2 three-source programs over map/starmap/accumulate(all forms, extra and node-only arguments)/zip/union/buffer/partition/sliding_window between scatter() and gather() (incl. a failing task, list elements, two segments in a row): every dependency-respecting order of task completions "
      "interleaved with emits within the deviation bound; the recorder sequence must equal that of the same program built from local nodes and fed the same emits (prefix at every step, equal at the end); "
      "input reference counters must end with the same counts, fire as often, and not earlier relative to deliveries than locally.",
      "trusted fake Dask client (FIFO scatter/gather RPCs, explorer-driven task completion); producers await emit; <=4 elements; deviations <=1 quick / <=2 thorough; local references computed on a real background loop before exploration",
      "DESIGN.md §3 C20")

claim("C01", "seqbfs",
      "explicit-state BFS over input sequences on the real synchronous pipelines, reference interpreter with provenance as oracle, canonical-state dedup",
      "About 1700 programs from a typed node grammar (all chains of <= 2 nodes over the full parameter menu incl. boundary ones, fan-out in both attachment orders, fan-in of two entry points / two branches of one "
      "entry through 11 join variants followed by <= 1 node, 3-input joins, three unique-guarded feedback programs); for each, every input sequence over {1,2,3} at every entry point (+flush) to depth 4 (5 thorough) "
      "is replayed on fresh real objects; after every step the global sequence of (recorder, value) events must equal the reference interpreter's (subsumes loss, duplication, reordering, sibling order).",
      "user functions stateless; chains <= 2 nodes (3 with a reduced third menu in thorough); depth <= 5; dedup key = reference state + snapshot of every real node's instance dictionary",
      "DESIGN.md §3 C01")

claim("C10", "seqbfs",
      "explicit-state BFS over input sequences with 0/1/2 metadata dicts per element (part of the alphabet), provenance of the reference interpreter as oracle",
      "The C01 program space; every recorder event's metadata must be a flat list of dicts identical by object identity to the concatenation, in provenance order, of the metadata of the contributing inputs "
      "(one-to-one unchanged, batches/tuples in member order, one-to-many on the last piece, elements without metadata contribute nothing).",
      "depth 3 quick / 4 thorough over values {1,2} x {0,1,2} dicts; timing nodes are covered through the C04/C05 scenario recorders only as far as reference counts are concerned",
      "DESIGN.md §3 C10")

claim("C15", "seqbfs",
      "explicit-state BFS over graph-edit histories on a pool of real nodes, reference graph interpreter over the current edge list as oracle",
      "21 operations (emits at three sources, connect/disconnect of every edge into a join that keeps the graph free of parallel edges, destroy of join and map, destroy(streams=[one input]), drop-last-reference with and without gc.collect(), sink.destroy(), moving the sink nobody references to another stream followed by a collection) "
      "x 5 join kinds (zip, combine_latest plain / emit_on=0 / emit_on=1, union), all histories to depth 6 (7 thorough) with dedup on (edge lists, join state); after every operation links must be mutually consistent, "
      "build_node_set must equal the reference reachable set and deliveries must equal the reference over the current edges (zip: every complete tuple by the edit or the next arrival; gc'ed branch silent; sink alive until destroyed).",
      "fixed node pool; parallel edges excluded by construction; operations documented to raise (removing the emit_on stream) are not generated",
      "DESIGN.md §3 C15")

claim("C16", "seqbfs",
      "explicit-state BFS over (input, which user-function invocation fails) sequences on the real pipelines, reference interpreter with abort semantics as oracle",
      "Programs over every node type that calls a user function (map, starmap, filter, remove, accumulate in all forms, unique(key), partition(key), partition_unique(key), sink, each also with extra arguments) in chain (incl. behind flatten), fan-out (both orders), union and join shapes; "
      "alphabet (entry, value, j) with j = which invocation of this emit raises; the injected exception object itself must reach the caller of emit (blocking emit through the real background loop when a node needs one), "
      "every later output must equal the reference run in which the failing node kept its state, and the failed element's counter must never reach zero.",
      "one failure per emit; depth 3 (4 thorough); for a failure carried by an awaitable (partition) sibling branches may or may not see the element - both are accepted, as the statement only constrains the failing node",
      "DESIGN.md §3 C16")

claim("C19", "config",
      "exhaustive enumeration of construction configurations against a unification reference for (loop, mode) per connected component",
      "Full product of first node (plain Stream + all 12 Source subclasses) x asynchronous {None,True,False} x loop {none,current,other} x 0-2 fluent nodes (plain / each loop-requiring type, explicit arguments none / agreeing / conflicting) "
      "x joins (union, zip, combine_latest, zip_latest) with a second pipeline incl. explicit arguments on the join and a loop-requiring node added afterwards to the joined-in pipeline; "
      "also with a default Dask client in the process, sinks as nodes, and a run-time step (start the source / push one element into an asynchronous pipeline); "
      "oracle: inherited (loop, mode), ValueError exactly on explicit conflicts, asynchronous=True => IOLoop.current() and no thread, blocking loop-needing node => the one shared background loop (one thread) or the Dask client's loop, no component with two loops or modes, every callback scheduled at construction or at run time lands on the component's loop; plus the batched Kafka source run on the virtual loop with the shared loop replaced by a reporting stand-in.",
      "event loops are inert stand-ins behind the streamz.core.IOLoop / threading seams (binding, thread creation and where callbacks are scheduled are observed, callbacks not run); mode compared by truthiness; joining two already conflicting pipelines without an explicit contradicting request is not generated",
      "DESIGN.md §3 C19")

claim("C06", "frames",
      "exhaustive enumeration of small tables x all batch splits (with empty batches) on the real streaming-dataframe pipeline, pandas on the prefix as reference model",
      "Series / DataFrame sum, count, size, mean, expanding var/std (the public route to a running variance), value_counts, groupby(column | streaming series) sum/count/size/mean/var/std, and elementwise trees of depth <= 2 "
      "(+scalar, *column, comparison, [mask], [[cols]], assign) per batch and under sum / groupby.sum (batches emptied by an upstream filter), plus a second catalogue (the rest of the operator table incl. reflected and logical operators, item assignment, frames assembled from expressions, query / set_index / index, aggregations chained onto stateful results, expressions mixing the batch with a running aggregate, two pipelines alive at once, ddof 0/2, index-like groupers): every table of up to R rows over values {1,2,NaN} x keys {a,b}, every composition into "
      "consecutive batches with up to E empty batches at every position, each on a fresh pipeline, compared after every batch with pandas on concat(batches[:k]) whenever that prefix has a row.",
      "quick R<=3, E<=1; thorough R<=4 E<=2 (+R=5 for Series reductions; groupby families bounded per family, recorded in the evidence); value families {1,2,NaN}, {-1,1,2}, {1,2,4}; numeric tolerance 1e-9, NaN == NaN, dtype-only differences ignored",
      "DESIGN.md §3 C06")

claim("C07", "frames",
      "exhaustive enumeration of tables x splits x window sizes / durations, pandas on the window slice as reference model",
      "window(n=N) for N in 1..3 and window(value=T) for T in {1s,2s,3s} on a seconds grid and {1ns,2ns} on a nanosecond grid (duplicate timestamps, rows exactly on and next to the edge): sum, count, mean, var, std, size, value_counts, full window, "
      "groupby(column | series) sum/count/size/mean/var/std; after every batch the result must equal pandas on the last N rows / on rows with index > newest - T; every present value with its exact statistic, vanished groups gone; "
      "a long single-value table family makes one batch evict two whole earlier batches of different lengths.",
      "quick R<=3 E<=1; thorough per-family bounds up to R=5 (recorded in the evidence); zero-count leftovers in windowed value_counts are tolerated as the statement allows",
      "DESIGN.md §3 C07")

claim("C11", "frames",
      "exhaustive enumeration of tables x splits for rolling (rows and time), cumulative, expanding and ewm aggregations, pandas in one pass as reference model",
      "rolling(w in 1..3).{sum,mean,min,max,count,std,var,median}, rolling('1ns'|'2ns').{sum,count,max}, cumsum/cumprod/cummin/cummax, expanding().{sum,mean,count,var,std}, ewm(com | span | halflife | alpha, symmetric and asymmetric values, alpha=1).mean(), the column picked before or after the wrapper, positional arguments, quantile / aggregate, scans chained onto scans: "
      "concat(emitted) (rolling, cumulative) resp. the value emitted per batch (expanding, ewm) must equal the one-pass pandas result for every split incl. empty batches and batches shorter than the window.",
      "quick R<=3 E<=1, thorough R<=4 E<=2 (+R=5 E=1); known findings: ewm with NaN rows, expanding().sum() on an all-NaN prefix",
      "DESIGN.md §3 C11")

claim("C12", "frames",
      "exhaustive enumeration of batch sequences x every cut point: uninterrupted run vs pipeline resumed from the captured state (twice, after the original has moved on)",
      "For every batch sequence and every cut k the states exposed by the uninterrupted run (with_state=True / emitted value for reductions / (sum,count) for mean) are captured while the original pipeline goes on; a fresh pipeline seeded with start=<state k> "
      "must reproduce the uninterrupted suffix and the same subsequent states, also on a second resume from the same state object (aliasing of captured state is thereby visible); the same with resumed pipelines that are given start=<state> alone.",
      "aggregations without start=/with_state support (GroupBy.size/var/std, Frame.size, unwindowed value_counts, cumulative) are not covered and listed in the evidence notes; quick R<=3, thorough R<=4",
      "DESIGN.md §3 C12")

ALL = ["C%02d" % i for i in range(1, 21)]


def main():
    checks = []
    for pid in ALL:
        if pid not in CHECKS:
            continue
        engine, technique, text, note, ref = CHECKS[pid]
        checks.append(dict(
            property_id=pid,
            quick_cmd="%s -m vf.run %s --tier quick" % (PY, pid),
            thorough_cmd="%s -m vf.run %s --tier thorough" % (PY, pid),
            evidence_file="/verif/evidence/%s.json" % pid,
            replay_cmd_template="%s -m vf.run %s --replay {path}" % (PY, pid),
            engine=engine,
            level_claimed=dict(category="model_checking", text=text, design_ref=ref),
            level_note=note,
            technique=technique,
        ))
    engines = []
    for name, (path, kind) in ENGINES.items():
        serves = [p for p in ALL if p in CHECKS and name in CHECKS[p][0].split("+")]
        if serves:
            engines.append(dict(name=name, path=path, serves_properties=serves, kind_free_text=kind))
    na = [dict(property_id=p, reason=NOT_YET.get(p, "check not built yet in this revision of /verif (planned, see DESIGN.md §3); not claimed until it runs"))
          for p in ALL if p not in CHECKS]
    m = dict(
        version=1,
        setup_cmd="%s -m vf.selftest" % PY,
        hooks=dict(guard="STREAMZ_VERIF", enable="no hooks: checks import streamz from the /repo working tree and rebind module-level seams at run time (DESIGN.md §2.1)",
                   baseline_off_cmd="cd /repo && /venv/bin/python -m pytest -q -p no:cacheprovider --timeout=900",
                   source_commits=[], add_only=True),
        engines=engines,
        checks=checks,
        not_applicable=na,
        notes="All checks run the real implementation from /repo's working tree ($VERIF_REPO overrides). "
              "VERIF_SEED only permutes work order; VERIF_TIER selects quick/thorough. Genuine defects repaired by 'fix:' commits in /repo and "
              "recorded findings are listed in /verif/known_findings.json.",
    )
    with open(os.path.join(HERE, "MANIFEST.json"), "w") as f:
        json.dump(m, f, indent=1)
    print("wrote MANIFEST.json: %d checks, %d not claimed" % (len(checks), len(na)))


if __name__ == "__main__":
    main()
