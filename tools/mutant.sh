#!/bin/bash
# usage: tools/mutant.sh <patch.diff> <ID> [<ID>...]   (env TIER=quick|thorough)
# Applies the patch to a scratch copy of /repo (outside /repo and /verif), runs the given
# checks against it via $VERIF_REPO, prints their exit codes, removes the copy.
set -u
P=$(realpath "$1"); shift
D=$(mktemp -d /tmp/mut_XXXXXX)
git -C /repo worktree add -q --detach "$D/repo" HEAD || exit 3
( cd "$D/repo" && git apply --whitespace=nowarn "$P" ) || { echo "PATCH DOES NOT APPLY"; git -C /repo worktree remove --force "$D/repo"; rm -rf "$D"; exit 3; }
cd /verif
for id in "$@"; do
  VERIF_REPO="$D/repo" VERIF_EVIDENCE_DIR="$D/evidence" VERIF_REPLAY_DIR="$D/replays" /venv/bin/python -m vf.run "$id" --tier "${TIER:-quick}" > "$D/out_$id.txt" 2>&1
  rc=$?
  echo "== $id exit=$rc"; grep -E "VIOLATION|KNOWN-FINDING|HARNESS|Traceback|^  [a-z]" "$D/out_$id.txt" | cut -c1-300 | head -${LINES_MAX:-8}
done
git -C /repo worktree remove --force "$D/repo"; rm -rf "$D"
