import json, os, sys
os.environ['PYTHONHASHSEED']='0'
import warnings; warnings.filterwarnings('ignore')
sys.path.insert(0,'/verif')
from vf import bind_repo; bind_repo()
from vf import spar
rep=json.load(open(sys.argv[1]))
x=spar.replay_finding(rep['module'], rep)
for e in x.scen.log: print(e)
print(x.scen.trace)
for v in x.violations[:3]: print(v)
