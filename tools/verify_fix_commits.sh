#!/bin/bash
# Runs the unedited baseline suite on every commit after the pinned snapshot (sequentially,
# in scratch worktrees under /tmp that are removed afterwards).  Output: one line per commit.
BASE=${1:-68bdab6}
OUT=${2:-/tmp/fix_commit_suite.txt}
: > $OUT
for c in $(git -C /repo rev-list --reverse $BASE..HEAD); do
  d=/tmp/vt_$c
  git -C /repo worktree add -q --detach $d $c
  r=$(cd $d && /venv/bin/python -m pytest -q -p no:cacheprovider --timeout=900 2>&1 | grep -E "^[0-9]+ passed|failed|error" | tail -1)
  f=$(cd $d && /venv/bin/python -c "import streamz,os;print(os.path.dirname(streamz.__file__))")
  echo "$(git -C /repo log --oneline -1 $c | cut -c1-70) :: $r :: from $f" >> $OUT
  git -C /repo worktree remove --force $d
done
echo DONE >> $OUT
