#!/usr/bin/env python3
"""Regenerates section 6.7 of DESIGN.md (between the markers) from /verif/seeded/*/meta.json and
/verif/seeded/revert_matrix.txt."""
import glob
import json
import os
import re

V = os.path.dirname(os.path.dirname(os.path.abspath(__file__)))
BEGIN, END = "<!-- BEGIN GENERATED 6.7 -->", "<!-- END GENERATED 6.7 -->"


def main():
    rows = []
    for f in sorted(glob.glob(os.path.join(V, "seeded", "C*", "meta.json"))):
        m = json.load(open(f))
        w = m["what_was_run"]
        checks = "; ".join("%s exit %d%s" % (c, r["exit"], (" (" + ", ".join(r["signatures"][:2]) + ")") if r["signatures"] else "") for c, r in w["checks"].items())
        status = "kept" if m["valid"] else "not kept as a detection case (demo %d/%d, suite %s)" % (w["demo_on_unchanged_tree_exit"], w["demo_with_change_exit"], "ok" if w["suite_matches_baseline"] else "differs")
        rows.append("| %s | %s | %s | %s | %s |" % (m["name"], m["breaks_property"], m["needs_to_manifest"].replace("|", "/"), checks.replace("|", "/"), status))
    out = ["### 6.7 Which check catches which change", "",
           "Seeded changes (`/verif/seeded/<name>/`: `patch.diff`, `demo.py`, `meta.json`; confirmed by `tools/seed_eval.py`: demo exits 0 on the unchanged tree and non-zero with the change, the unedited suite still gives the baseline result with the change):", "",
           "| seed | property | needs, to manifest | checks run against it (quick tier) | status |", "|---|---|---|---|---|"] + rows
    rm = os.path.join(V, "seeded", "revert_matrix.txt")
    if os.path.exists(rm):
        out += ["", "Reverted repairs (`tools/revert_matrix.sh`; every `fix:` commit reverted on top of HEAD in a scratch worktree, mapped checks run in the quick tier):", "", "```"]
        out += [l.rstrip()[:230] for l in open(rm) if l.strip() and l.strip() != "DONE"]
        out += ["```"]
    text = "\n".join(out) + "\n"
    p = os.path.join(V, "DESIGN.md")
    s = open(p).read()
    if BEGIN in s:
        s = re.sub(re.escape(BEGIN) + ".*?" + re.escape(END), BEGIN + "\n" + text + END, s, flags=re.S)
    else:
        s = s.replace("## Appendix A — reference semantics", BEGIN + "\n" + text + END + "\n\n## Appendix A — reference semantics")
    open(p, "w").write(s)
    print("6.7 regenerated: %d seeds" % len(rows))


if __name__ == "__main__":
    main()
