#!/bin/bash
# Runs every mutants/<...C\d\d...>.diff against the quick check of the property named in its file name
# (scratch worktrees outside /repo and /verif, via tools/mutant.sh) and writes one line per mutant.
# usage: tools/mutant_matrix.sh [out file] [parallel jobs]
OUT=${1:-/verif/mutants/matrix.txt}
J=${2:-4}
cd /verif
ls mutants/*.diff | grep -v revert_ | while read f; do
  id=$(basename "$f" | grep -o 'C[0-9][0-9]' | head -1)
  [ -n "$id" ] && echo "$f $id"
done > /tmp/mm_list.txt
run_one() {
  f=$1; id=$2
  r=$(LINES_MAX=2 tools/mutant.sh "$f" "$id" 2>&1 | grep -v KNOWN-FINDING | head -2 | cut -c1-150 | tr '\n' ' ')
  echo "$(basename $f) | $r"
}
export -f run_one
xargs -P "$J" -L 1 bash -c 'run_one $0 $1' < /tmp/mm_list.txt > "$OUT.tmp" 2>&1
sort "$OUT.tmp" > "$OUT"; rm -f "$OUT.tmp" /tmp/mm_list.txt
echo "exit=1: $(grep -c 'exit=1' $OUT)  exit=0: $(grep -c 'exit=0' $OUT)  other: $(grep -vc 'exit=[01]' $OUT)"
