#!/bin/bash
# usage: tools/confirm_seed.sh <ID-name> <dir with patch.diff + demo.py> <property>
# Confirms independently (scratch worktree, removed afterwards): demo passes without / fails with the
# change; the unedited suite passes with the change.  Stores /verif/seeded/<name>/{patch.diff,demo.py,confirm.json}.
set -u
NAME=$1; SRC=$2; PROP=$3
D=$(mktemp -d /tmp/conf_XXXXXX)
git -C /repo worktree add -q --detach "$D/repo" HEAD || exit 3
cd "$D/repo"
cp "$SRC/demo.py" "$D/demo.py"
PYTHONPATH="$D/repo" timeout 300 /venv/bin/python "$D/demo.py" > "$D/demo_clean.txt" 2>&1; RC_CLEAN=$?
git apply --whitespace=nowarn "$SRC/patch.diff" || { echo "patch does not apply"; cd /; git -C /repo worktree remove --force "$D/repo"; rm -rf "$D"; exit 3; }
WHERE=$(PYTHONPATH="$D/repo" /venv/bin/python -c 'import streamz,os;print(os.path.dirname(streamz.__file__))')
PYTHONPATH="$D/repo" timeout 300 /venv/bin/python "$D/demo.py" > "$D/demo_mut.txt" 2>&1; RC_MUT=$?
SUITE=$(flock /tmp/streamz_suite.lock /venv/bin/python -m pytest -q -p no:cacheprovider --timeout=900 2>&1 | grep -E "^[0-9]+ passed|failed|error" | tail -1)
mkdir -p /verif/seeded/$NAME
cp "$SRC/patch.diff" "$SRC/demo.py" /verif/seeded/$NAME/
/venv/bin/python - "$NAME" "$PROP" "$RC_CLEAN" "$RC_MUT" "$SUITE" "$WHERE" "$D" <<'PY'
import json,sys
name,prop,rc0,rc1,suite,where,d=sys.argv[1:]
json.dump(dict(name=name,property=prop,demo_exit_unchanged=int(rc0),demo_exit_with_change=int(rc1),
  suite_with_change=suite,streamz_imported_from=where.replace(d,'<scratch>'),
  demo_output_with_change=open(d+'/demo_mut.txt').read()[-600:]),
  open('/verif/seeded/%s/confirm.json'%name,'w'),indent=1)
print(name,prop,'demo clean rc',rc0,'mut rc',rc1,'suite:',suite)
PY
cd /; git -C /repo worktree remove --force "$D/repo"; rm -rf "$D"
