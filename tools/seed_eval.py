#!/usr/bin/env python3
"""Confirms independently seeded changes and records them under /verif/seeded/<name>/.

For every entry of SEEDS: scratch worktree of /repo HEAD (outside /repo and /verif, removed
afterwards) -> demo on the unchanged tree (must exit 0) -> apply the patch -> demo (must exit
non-zero) -> unedited test suite with the change (must match the baseline) -> the listed checks
through $VERIF_REPO (exit codes and first signatures).  Writes patch.diff, demo.py, meta.json.

usage: tools/seed_eval.py [name ...]      (default: all entries not yet recorded)
"""
import json
import os
import shutil
import subprocess
import sys
import tempfile

V = "/verif"
PY = "/venv/bin/python"
BASELINE = "1036 passed, 438 skipped, 8 xfailed, 96 xpassed"

# name: (source dir, property, checks to run, what it needs to manifest)
SEEDS = {
    "C01_a": ("_incoming/C01", "C01", ["C01"], "zip pops its buffers after emitting: a feedback edge through zip while the other input has run ahead (re-entrant update)"),
    "C02_a": ("_incoming/C02", "C02", ["C02", "C08"], "partition._flush resets its buffer after the await: a timeout flush in flight to an asynchronous sink plus another arrival for the same key"),
    "C03_a": ("_incoming/C03", "C03", ["C03"], "zip notify() instead of notify_all(): three or more producers blocked on one zip and fewer tuples formed afterwards than waiters"),
    "C04_a": ("_incoming/C04", "C04", ["C04", "C05"], "timed_window.cb aliases the live metadata buffer: an element arriving while the window node awaits its downstream"),
    "C05_a": ("_incoming/C05", "C05", ["C05", "C04"], "partition._flush keeps the live metadata list across the await: an arrival for the same key while a flush is suspended downstream"),
    "C06_a": ("_incoming/C06", "C06", ["C06"], "GroupbyVar sum of squares via ndarray.dot: a NaN inside a group"),
    "C07_a": ("_incoming/C07", "C07", ["C07"], "diff_iloc subtracts len(old[0]): one batch evicting two whole earlier batches of different lengths"),
    "C08_a": ("_incoming/C08", "C08", ["C08"], "partition cancels its timer after the flush: a size flush blocked by backpressure beyond the timeout / a new arrival during the block"),
    "C09_a": ("_incoming/C09", "C09", ["C09"], "commit closure reads the loop variable late: two partitions with data in one poll cycle, or an asynchronous stage downstream"),
    "C10_a": ("_incoming/C10", "C10", ["C10"], "zip_latest metadata list hoisted out of the drain loop: two or more lossless elements buffered with differing metadata before the other input's first value"),
    "C11_a": ("_incoming/C11", "C11", ["C11"], "rolling_accumulator slices the result before computing the time-window carry: time-based rolling with an empty batch mid-stream"),
    "C12_a": ("_incoming/C12", "C12", ["C12"], "diff_iloc no longer copies the deque: state captured, original pipeline continues, then resume (twice)"),
    "C13_a": ("_incoming/C13", "C13", ["C13"], "rate_limit reserves its slot after the sleep: two or more updates in flight in one busy window"),
    "C14_a": ("_incoming/C14", "C14", ["C14"], "latest raises its flag in a deferred callback: a second arrival between the wake-up callback and the forwarding coroutine resuming"),
    "C15_a": ("_incoming/C15", "C15", ["C15"], "combine_latest snapshots emit_on before appending: no emit_on, a later connect(), all inputs delivered, then an emission from the new input"),
    "C16_a": ("_incoming/C16", "C16", ["C16"], "blocking emit uses asyncio.wait: threaded emit and a failure carried by a downstream awaitable"),
    "C17_a": ("_incoming/C17", "C17", ["C17"], "from_textfile looks for the delimiter in the new text only: a multi-character delimiter split across two polls"),
    "C18_a": ("_incoming/C18", "C18", ["C18"], "_run_in_flight set inside the coroutine: start(); stop(); start() within one loop turn"),
    "C19_a": ("_incoming/C19", "C19", ["C19"], "_set_loop inherits before informing: a join with an explicit loop equal to its first upstream's while another upstream differs or is unbound"),
    "C20_a": ("_incoming/C20", "C20", ["C20", "C04"], "gather retains after the gather RPC (made against the tree before fix 58131c4; that repair makes the change behaviour-preserving: expected NOT to manifest any more)"),
    "C01_b": ("_incoming2/C01", "C01", ["C01"], "accumulate assigns its state after emitting: a feedback edge that re-enters the accumulate node during its own emission"),
    "C02_b": ("_incoming2/C02", "C02", ["C02", "C13"], "rate_limit rewrites next after its sleep: two parked elements, the first released, a further arrival exactly when the next slot is due but its timer has not fired"),
    "C03_b": ("_incoming2/C03", "C03", ["C03"], "map_async calls the mapped function before waiting for a slot: an eager, future-returning function and more pending emits than parallelism+1"),
    "C04_b": ("_incoming2/C04", "C04", ["C04", "C05", "C16"], "_emit retains per downstream: fan-out at the entry point, first branch synchronous, a later branch holding / awaiting / raising"),
    "C05_b": ("_incoming2/C05", "C05", ["C05", "C04"], "timed_window resets its metadata buffer after the await: an element with a counter arriving while the previous batch is still being consumed"),
    "C08_b": ("_incoming2/C08", "C08", ["C08", "C05"], "timed_window_unique resets its buffers after the await: an element arriving while the node is blocked by downstream backpressure"),
    "C09_b": ("_incoming2/C09", "C09", ["C09"], "positions re-read from committed offsets when a partition is added: refresh_partitions with a batch still in flight"),
    "C10_b": ("_incoming2/C10", "C10", ["C10"], "partition_unique(keep='last') leaves the replaced key's metadata in place: n>=3 and a key repeated while it is not the last one in the buffer"),
    "C17_b": ("_incoming2/C17", "C17", ["C17"], "filenames uses len(seen) as a cursor into the sorted listing: a file created between polls whose name sorts before an already emitted path"),
    "C18_b": ("_incoming2/C18", "C18", ["C18"], "from_iterable checks stopped only after the first item: stop() between start() and the loop's first turn"),
    "C20_b": ("_incoming2/C20", "C20", ["C20", "C02"], "partition._flush resets after the await (core node mixed into DaskStream): more elements reach a partition inside the Dask segment while a flush is being gathered"),
    "C02_c": ("_incoming3/C02", "C02", ["C02", "C08"], "partition keeps one timer handle for all keys: key= and timeout= together, two keys partially filled, one of them fills up"),
    "C03_c": ("_incoming3/C03", "C03", ["C03"], "_emit drops the pending awaitables from its result on the deferred-release path: elements carrying ref metadata and a downstream that is still pending"),
    "C04_c": ("_incoming3/C04", "C04", ["C04"], "map_async releases in a finally block: a mapped coroutine that raises for an element carrying a counter"),
    "C05_c": ("_incoming3/C05", "C05", ["C05"], "_emit releases len(downstreams) counted after the loop: a downstream that detaches during the emission (slice reaching its end)"),
    "C08_c": ("_incoming3/C08", "C08", ["C08"], "partition arms its timer only when no handle is registered and clears the handle after the awaited flush: an arrival while a timeout flush is blocked downstream"),
    "C09_c": ("_incoming3/C09", "C09", ["C09", "C04"], "deferred release uses self.current_metadata: two batches in flight through an asynchronous consumer, the earlier one completing first"),
    "C12_c": ("_incoming3/C12", "C12", ["C12"], "Mean.on_new updates totals/counts in place: mean over a multi-column frame with exposed state, captured state used after the original has moved on"),
    "C15_c": ("_incoming3/C15", "C15", ["C15"], "zip hands on one tuple per arrival: a backlog left after removing the one lagging input"),
    "C17_c": ("_incoming3/C17", "C17", ["C17"], "from_textfile seeks to the end in start(): from_end=True plus a redundant start() or a stop/append/start"),
    "C20_c": ("_incoming3/C20", "C20", ["C20"], "Dask accumulate(with_state=True) emits its first element without metadata: no start, a holding node between accumulate and gather, counters on the inputs"),
    "C01_c": ("_incoming3/C01", "C01", ["C01"], "slice anchors its step grid at 0 instead of at start: step > 1 with a start that is not a multiple of the step"),
    "C06_c": ("_incoming3/C06", "C06", ["C06"], "Count.on_new adds len(new) instead of new.count(): a NaN in a counted column (on_old still subtracts count())"),
    "C10_c": ("_incoming3/C10", "C10", ["C15", "C10"], "combine_latest._remove_upstream pops the last metadata slot instead of the removed input's: three inputs holding metadata, a non-last input disconnected at run time"),
    "C16_c": ("_incoming3/C16", "C16", ["C20", "C16"], "gather resolves its ordering ticket only around the emit: a function failing on the cluster leaves every later element waiting for ever"),
    "C06_b": ("_incoming2/C06", "C06", ["C06", "C07"], "Mean divides by max(count, 1): a column whose prefix has rows but only NaN values (0.0 instead of NaN)"),
    "C07_b": ("_incoming2/C07", "C07", ["C07"], "Mean.on_old subtracts len(old) instead of old.count(): a NaN row that enters the window and is evicted later"),
    "C11_b": ("_incoming2/C11", "C11", ["C11"], "rolling_accumulator emits result.iloc[-len(new):]: an empty batch after a non-empty one re-emits the retained backlog"),
    "C12_b": ("_incoming2/C12", "C12", ["C12"], "EWMean keeps its still-needs-first-row fact on the aggregation object instead of in the state: a cut inside a leading run of empty batches"),
    "C13_b": ("_incoming2/C13", "C13", ["C13", "C02"], "delay wraps queue.get() in gen.with_timeout, which leaves the abandoned getter registered: an idle gap longer than the interval, then the next elements are swallowed"),
    "C14_b": ("_incoming2/C14", "C14", ["C14"], "latest keeps its one-element slot at class level and writes it in place: two latest() nodes whose pending windows overlap"),
    "C15_b": ("_incoming2/C15", "C15", ["C15"], "destroy() iterates self.upstreams while removing from it: a node with two or more inputs keeps every second edge"),
    "C16_b": ("_incoming2/C16", "C16", ["C16", "C04"], "_finished() accepts a future that is already done with an exception: a consumer whose awaitable has failed by the time update() returns"),
    "C19_b": ("_incoming2/C19", "C19", ["C19"], "_inform_loop no longer percolates to downstreams of visited nodes: branch an unbound pipeline, bind one branch late, then look at / extend the sibling"),
    "C01_d": ("_incoming4/C01", "C01", ["C01"], "zip.pack_literals copies at most one stream value per literal: two or more stream arguments directly before a literal, zip(a, b, 'L')"),
    "C02_d": ("_incoming4/C02", "C02", ["C02"], "map_async decides from the mapped *value* whether to await its consumers: a falsy result (0, None, '') and a native-coroutine consumer"),
    "C03_d": ("_incoming4/C03", "C03", ["C03", "C13"], "rate_limit returns the downstream awaitable from its gen.coroutine instead of yielding it when no delay is due: an unthrottled element and an asynchronous consumer"),
    "C04_d": ("_incoming4/C04", "C04", ["C04", "C05"], "partition flushes and releases the metadata of every key when one key's group fills: key= with interleaved keys and counters"),
    "C05_d": ("_incoming4/C05", "C05", ["C05", "C04"], "zip_latest builds the metadata list once before its drain loop: two or more lossless elements parked before the other input's first value, a holding node downstream"),
    "C06_d": ("_incoming4/C06", "C06", ["C06"], "groupby_accumulator returns (state, state) for an empty batch: non-windowed groupby mean/var/std and a zero-row batch"),
    "C07_d": ("_incoming4/C07", "C07", ["C07"], "Full.on_old evicts by index label: window(n).full()/apply() with index labels repeated inside the window"),
    "C08_d": ("_incoming4/C08", "C08", ["C08", "C01"], "timed_window_unique keep=first tests the stored element's truthiness: a falsy first element of a key and a second element with that key in one window"),
    "C09_d": ("_incoming4/C09", "C09", ["C09"], "auto.offset.reset flips to earliest after the first partition of the first cycle: two or more partitions, reset=latest, a backlog in a later partition, no committed offset"),
    "C10_d": ("_incoming4/C10", "C10", ["C10", "C05"], "partition resets its metadata buffer after the awaited flush: another element of the key arriving while the flush is suspended downstream"),
    "C11_d": ("_incoming4/C11", "C11", ["C11"], "cum* forward-fills the carried row only when *all* columns are missing: a multi-column frame, a batch ending in a row that is NaN in some columns"),
    "C12_d": ("_incoming4/C12", "C12", ["C12", "C16"], "accumulate emits (state, result) before committing the state: with_state=True and a sibling consumer that raises once on one batch"),
    "C13_d": ("_incoming4/C13", "C13", ["C13"], "rate_limit caps its sleep at one interval: three or more elements in flight at once"),
    "C14_d": ("_incoming4/C14", "C14", ["C14"], "latest clears its slot after delivery when the slot still holds the delivered object: the identical object arriving again while the consumer is busy"),
    "C15_d": ("_incoming4/C15", "C15", ["C15"], "combine_latest caches input positions and renumbers from 0 after a removal: three or more inputs, a middle one disconnected, then an emission from a later one"),
    "C16_d": ("_incoming4/C16", "C16", ["C16", "C04", "C05"], "_emit retains once per downstream inside the loop: fan-out at the entry point, first branch synchronous, a later branch raising"),
    "C17_d": ("_incoming4/C17", "C17", ["C17"], "from_textfile cuts the tail with rpartition: a delimiter that overlaps itself ('\\n\\n', 'aa') and a read ending inside an odd run of delimiter characters"),
    "C18_d": ("_incoming4/C18", "C18", ["C18"], "Source.__init__ resets _run_in_flight after start=True has started the loop: stop(); start() at a suspension point of a source constructed with start=True"),
    "C19_d": ("_incoming4/C19", "C19", ["C19"], "get_io_loop consults the default Dask client before `asynchronous`: a blocking default client and a pipeline declared asynchronous=True without a loop"),
    "C20_d": ("_incoming4/C20", "C20", ["C20"], "gather forgets _previous unconditionally when an update finishes: three updates in the gather, the first finishing while the second waits, the third's task finishing first"),
    "C07_e": ("_incoming5/C07", "C07", ["C07", "C06"], "Mean.on_old subtracts len(old) instead of old.count(): a row holding NaN enters a count/time window and later decays out of it"),
    "C11_e": ("_incoming5/C11", "C11", ["C11"], "rolling_accumulator takes the time-window cutoff from the incoming batch: an empty batch after data, followed by more data, under a time-based rolling window"),
    "C13_e": ("_incoming5/C13", "C13", ["C13", "C02"], "rate_limit reserves the slot after the hand-off on an idle line: a consumer that suspends and a second producer emitting during that hand-off"),
    "C14_e": ("_incoming5/C14", "C14", ["C14"], "latest schedules a wake-up only when none is pending and clears the flag after wait(): an arrival during a busy period, then a further arrival after the backlog has drained"),
    "C18_e": ("_incoming5/C18", "C18", ["C18"], "Source.start() leaves setting _run_in_flight to the scheduled run: start(); stop(); start() back-to-back before the loop has run the first callback"),
    "C19_e": ("_incoming5/C19", "C19", ["C19"], "_inform_loop does not percolate to sibling downstreams when told from below: a branched unbound graph and a loop arriving from the bottom of one branch"),
    "C03_e": ("_incoming5/C03", "C03", ["C03", "C02"], "flatten rebinds instead of accumulating its consumers' awaitables: a batch of three or more elements into an awaitable-returning consumer, an earlier element's consumer finishing last"),
    "C04_e": ("_incoming5/C04", "C04", ["C04", "C05"], "_emit looks for a counter only in the first metadata dict: a metadata list whose first entry has no 'ref', a consumer that returns an unfinished awaitable"),
    "C09_e": ("_incoming5/C09", "C09", ["C09"], "poll_kafka re-reads the committed offsets of all partitions when partitions are added: refresh_partitions=True, the topic growing while an old partition has handed-out but uncommitted offsets"),
    "C15_e": ("_incoming5/C15", "C15", ["C15"], "a sink leaves _global_sinks when its last upstream is removed: disconnect from the only upstream, connect to another stream, drop the reference, collect"),
    "C17_e": ("_incoming5/C17", "C17", ["C17"], "from_textfile skips the emission when everything before the last delimiter is empty: a poll whose buffer is exactly one bare delimiter (a blank record on its own)"),
    "C20_e": ("_incoming5/C20", "C20", ["C20", "C16"], "gather resolves its ordering future only on success: one element whose task fails, followed by further elements"),
    "C02_e": ("_incoming5/C02", "C02", ["C02", "C08"], "partition(timeout) arms its timer when no handle is registered and drops the expired handle only after the timeout flush has finished: an element arriving while that flush is blocked on a slow consumer, fewer than n followers"),
    "C08_e": ("_incoming5/C08", "C08", ["C08"], "partition(timeout) arms a timer only when the key has no handle and never forgets a fired one: a partial partition flushed by the timeout, then another partial partition of the same key"),
    "C10_e": ("_incoming5/C10", "C10", ["C10", "C05"], "partition_unique(keep='last') leaves the replaced key's metadata at its old position: a key repeated within one partition with another key in between, metadata on the elements"),
    "C16_e": ("_incoming5/C16", "C16", ["C16", "C04"], "_finished() accepts an awaitable that is done with an exception: a loop-bound pipeline, a counter in the metadata, a consumer handing back an already failed future"),
}


def sh(cmd, **kw):
    return subprocess.run(cmd, shell=True, capture_output=True, text=True, **kw)


def evaluate(name):
    src, prop, checks, needs = SEEDS[name]
    src = os.path.join(V, "seeded", src)
    if not os.path.exists(os.path.join(src, "demo.py")):
        print(name, "no deliverables yet")
        return
    patch = os.path.join(src, "patch.rebased.diff")
    rebased = os.path.exists(patch)
    if not rebased:
        patch = os.path.join(src, "patch.diff")
    d = tempfile.mkdtemp(prefix="seedev_", dir="/tmp")
    repo = os.path.join(d, "repo")
    try:
        assert sh("git -C /repo worktree add -q --detach %s HEAD" % repo).returncode == 0
        shutil.copy(os.path.join(src, "demo.py"), os.path.join(d, "demo.py"))
        env = dict(os.environ, PYTHONPATH=repo)
        clean = subprocess.run([PY, os.path.join(d, "demo.py")], capture_output=True, text=True, env=env, timeout=600, cwd=d)
        ap = sh("git apply --whitespace=nowarn %s" % patch, cwd=repo)
        if ap.returncode != 0:
            print(name, "PATCH DOES NOT APPLY:", ap.stderr[:200])
            return
        where = subprocess.run([PY, "-c", "import streamz,os;print(os.path.dirname(streamz.__file__))"], capture_output=True, text=True, env=env, cwd=d).stdout.strip()
        mut = subprocess.run([PY, os.path.join(d, "demo.py")], capture_output=True, text=True, env=env, timeout=600, cwd=d)
        def run_suite():
            out = sh("flock /tmp/streamz_suite.lock %s -m pytest -q -p no:cacheprovider --timeout=900 2>&1 | grep -E '^[0-9]+ passed|^FAILED|failed|error' | tail -4" % PY, cwd=repo).stdout.strip()
            lines = out.splitlines()
            return (lines[-1] if lines else ""), [l for l in lines if l.startswith("FAILED")]
        prev = None
        if (os.environ.get("SEED_EVAL_DEMO_ONLY") or os.environ.get("SEED_EVAL_REUSE_SUITE")) and os.path.exists(os.path.join(V, "seeded", name, "meta.json")):
            # SEED_EVAL_DEMO_ONLY: only the demonstration is run again (it was edited); suite and check results are those of the
            # first evaluation.  SEED_EVAL_REUSE_SUITE: the checks are run again as well (they were extended), the suite is not
            prev = json.load(open(os.path.join(V, "seeded", name, "meta.json")))["what_was_run"]
            suite, failed_tests = prev["unedited_suite_with_change"], prev["suite_failed_tests"]
        else:
            suite, failed_tests = run_suite()
        first_attempt = None
        if prev is None and not suite.startswith(BASELINE):
            # wall-clock tests of the suite are flaky on a loaded machine: one more attempt, both recorded
            first_attempt = dict(summary=suite, failed=failed_tests)
            suite, failed_tests = run_suite()
        results = {}
        if prev is not None and os.environ.get("SEED_EVAL_DEMO_ONLY"):
            results = prev["checks"]
            checks = []
        for c in checks:
            e2 = dict(os.environ, VERIF_REPO=repo, VERIF_EVIDENCE_DIR=os.path.join(d, "ev"), VERIF_REPLAY_DIR=os.path.join(d, "rp"))
            r = subprocess.run([PY, "-m", "vf.run", c], capture_output=True, text=True, env=e2, cwd=V, timeout=3600)
            sigs = [l.strip().split("  x")[0] for l in r.stdout.splitlines() if l.startswith("  ") and "/" in l.split("  x")[0]][:4]
            results[c] = dict(exit=r.returncode, signatures=sigs)
        out = os.path.join(V, "seeded", name)
        os.makedirs(out, exist_ok=True)
        shutil.copy(patch, os.path.join(out, "patch.diff"))
        shutil.copy(os.path.join(src, "demo.py"), os.path.join(out, "demo.py"))
        if rebased:
            shutil.copy(os.path.join(src, "patch.diff"), os.path.join(out, "patch.original.diff"))
        head = sh("git -C /repo rev-parse --short HEAD").stdout.strip()
        meta = dict(
            name=name, breaks_property=prop, needs_to_manifest=needs,
            origin="written by a sub-agent that was given only the property text and a scratch worktree; "
                   + ("patch re-based by hand onto later fix: commits (patch.original.diff is what the agent delivered)" if rebased else "patch as delivered"),
            confirmed_at_repo_head=head,
            what_was_run=dict(
                demo_on_unchanged_tree_exit=clean.returncode,
                demo_with_change_exit=mut.returncode,
                demo_with_change_tail=(mut.stdout + mut.stderr)[-400:],
                streamz_imported_from=where.replace(d, "<scratch>"),
                unedited_suite_with_change=suite,
                suite_failed_tests=failed_tests,
                suite_first_attempt=first_attempt,
                suite_matches_baseline=suite.startswith(BASELINE),
                checks=results),
            valid=(clean.returncode == 0 and mut.returncode != 0 and suite.startswith(BASELINE)),
            caught_by=[c for c, r in results.items() if r["exit"] == 1],
        )
        with open(os.path.join(out, "meta.json"), "w") as f:
            json.dump(meta, f, indent=1)
        print(name, "valid=%s" % meta["valid"], "demo %d/%d" % (clean.returncode, mut.returncode), "suite:", suite[:60], "caught_by:", meta["caught_by"], flush=True)
    finally:
        sh("git -C /repo worktree remove --force %s" % repo)
        shutil.rmtree(d, ignore_errors=True)


if __name__ == "__main__":
    names = sys.argv[1:] or [n for n in SEEDS if not os.path.exists(os.path.join(V, "seeded", n, "meta.json"))]
    for n in names:
        try:
            evaluate(n)
        except Exception as e:   # noqa
            print(n, "ERROR", repr(e)[:200], flush=True)
